#!/bin/bash
# try_seeded.sh <patch.diff> <demo_test.go|-> <prop> [tier]   - run a check against a scratch copy of /repo with a
# property-breaking change applied (the change is never applied to /repo itself); prints the verdict lines.
# exit status: that of the check (1 = the change was detected).
set -u
PATCH="$1"; DEMO="$2"; PROP="$3"; TIER="${4:-quick}"
export GOFLAGS=-mod=mod GOPROXY=off GOSUMDB=off GOTOOLCHAIN=local
S=$(mktemp -d /tmp/seeded-XXXXXX)
trap 'rm -rf "$S"' EXIT
rsync -a --exclude .git /repo/ "$S/repo/" || exit 2
(cd "$S/repo" && patch -s -p1 < "$PATCH") || { echo "try_seeded: patch does not apply"; exit 2; }
(cd "$S/repo" && go build ./... ) || { echo "try_seeded: patched tree does not build"; exit 2; }
if [ "$DEMO" != "-" ] && [ -n "${VERIFY_DEMO:-}" ]; then
  cp "$DEMO" "$S/repo/zz_demo_test.go"
  (cd "$S/repo" && go test ${DEMO_FLAGS:-} -vet=off -count=1 -run TestZZDemo . >"$S/demo.log" 2>&1) && echo "try_seeded: DEMO PASSES with the change (unexpected)" || echo "try_seeded: demo fails with the change (expected)"
  rm -f "$S/repo/zz_demo_test.go"
fi
cd "$(dirname "$0")"
VERIF_REPO="$S/repo" VERIF_EVIDENCE_DIR="$S/evidence" VERIF_REPLAY_DIR="$S/replays" ./check "$PROP" "$TIER" 2>&1 | cut -c1-300 | grep -v "^KNOWN-FINDING" | tail -8
rc=${PIPESTATUS[0]}
[ -n "${KEEP_REPLAYS:-}" ] && { rm -rf "$KEEP_REPLAYS"; cp -r "$S/replays" "$KEEP_REPLAYS"; }
echo "try_seeded: check exit status $rc"
exit $rc
