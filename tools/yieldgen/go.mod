module yieldgen

go 1.18
