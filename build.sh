#!/bin/bash
# build.sh <scratch-dir> <tags> [race]  -> builds <scratch-dir>/tsim[-race] from /repo's working tree + /verif/sim
# exit 2 on any build trouble.
set -u
S="$1"; TAGS="$2"; RACE="${3:-}"
export GOFLAGS=-mod=mod GOPROXY=off GOSUMDB=off GOTOOLCHAIN=local
REPO=${VERIF_REPO:-/repo}
here="$(cd "$(dirname "$0")" && pwd)"
mkdir -p "$S" || exit 2
if [ ! -d "$S/repo" ]; then
  rsync -a --exclude .git "$REPO/" "$S/repo/" || exit 2
  (cd "$here/tools/yieldgen" && go build -o "$S/yieldgen" .) || { echo "build.sh: yieldgen build failed" >&2; exit 2; }
  "$S/yieldgen" "$S/repo" "$S/sites.tsv" > "$S/yieldgen.log" || { echo "build.sh: instrumentation failed" >&2; cat "$S/yieldgen.log" >&2; exit 2; }
  rm -rf "$S/sim"; mkdir -p "$S/sim"
  cp "$here"/sim/*.go "$here"/sim/*.s "$here"/sim/go.mod "$S/sim/" || exit 2
  cp "$S/repo/go.sum" "$S/sim/go.sum"
fi
out="$S/tsim-$(echo "$TAGS" | tr ',' '_')"
if [ -n "$RACE" ]; then
  (cd "$S/sim" && go build -race -tags "$TAGS" -o "$out-race" .) || { echo "build.sh: race build failed" >&2; exit 2; }
else
  (cd "$S/sim" && go build -tags "$TAGS" -o "$out" .) || { echo "build.sh: build failed" >&2; exit 2; }
fi
exit 0
