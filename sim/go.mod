module verifsim

go 1.18

require gorgonia.org/tensor v0.0.0

replace gorgonia.org/tensor => ../repo
