package main

import (
	"encoding/json"
	"fmt"
	"os"
	"os/exec"
	"strings"
	"time"

	"gorgonia.org/tensor"
)

// C18: concurrent use of distinct or read-only tensors is race-free and deterministic.
//
// 2..16 client goroutines run literal programs over private tensors plus a set of shared tensors
// that every client only reads. The seeded scheduler decides every interleaving at statement
// granularity; the simulated pools recycle across clients. Oracles: (1) every operation of every
// client has the outcome it had when the client ran alone; (2) shared tensors never change - checked
// at every context switch in the plain build; (3) the race detector, whose only happens-before
// edges are the ones the library itself creates; (4) deadlock.

type C18Case struct {
	Seed       uint64   `json:"seed"`
	Clients    int      `json:"clients"`
	Setup      []Op     `json:"setup"` // builds the shared tensors (run before the clients start)
	Programs   [][]Op   `json:"programs"`
	Tape       []Switch `json:"tape,omitempty"`
	RecycleNum int      `json:"recycle_num"`
	DropDen    int      `json:"drop_den"`
	Policy     int      `json:"policy"`
	Strategy   string   `json:"strategy,omitempty"`
	Env        bool     `json:"env,omitempty"`
	DensePre   int      `json:"dense_prefill,omitempty"` // tensor pool pre-filled to this many entries (PoolSize-1 / PoolSize reach the pool-full branches)
	Big        bool     `json:"big,omitempty"`           // shared and private tensors may have up to 2^17 elements (2^15 in the race build)
	Micro      bool     `json:"micro,omitempty"`         // contention run: 3-4 clients, a few scalar operations each on tensors of different element sizes
	ConcFirst  bool     `json:"conc_first,omitempty"`    // the interleaved run comes first (in a process that has done nothing yet), the solo oracle afterwards
}

type C18Stats struct {
	Runs, Ops, Yields, Switches, SwitchesInOp uint64
	SeqSkips, SoloSharedMut, SoloUnterminated uint64
	TapeFull, BigRuns, MicroRuns, FreshRuns   uint64
	Unreproducible                            uint64
	Strategies                                map[string]uint64
	Families                                  map[string]uint64
	OpNames                                   map[string]uint64
	Pool                                      PoolStats
	Sigs                                      map[uint64]struct{}
	Clients                                   map[int]uint64
	Races, Deadlocks                          uint64
	FinalizersFired                           uint64
	MaxYields                                 uint64
	Samples                                   []interface{}
}

func newC18Stats() *C18Stats {
	return &C18Stats{Strategies: map[string]uint64{}, Families: map[string]uint64{}, OpNames: map[string]uint64{},
		Sigs: map[uint64]struct{}{}, Clients: map[int]uint64{}}
}

// buildShared executes the setup recipe into a fresh world and returns it.
func buildShared(setup []Op) *World {
	w := newWorld(false)
	w.eng = &FaultEng{st: &faultState{}}
	for i := range setup {
		op := setup[i]
		w.Exec(&op)
	}
	w.nshared = len(w.slots)
	return w
}

func genSetup(r *RNG, big bool) []Op {
	setBig(big)
	w := newWorld(false)
	g := &Gen{r: r, w: w, maxLive: 8, noFault: true, big: big}
	var ops []Op
	n := 1 + r.Intn(4)
	for i := 0; i < n; i++ {
		dt := g.pickDt()
		sh := g.pickShape(3)
		// most runs share at least a float matrix and a vector that fits it: the linear-algebra
		// routines are where operands get transposed and reshaped
		if i == 0 && r.Intn(4) > 0 {
			dt = []string{"float64", "float64", "float32"}[r.Intn(3)]
			sh = []int{1 + r.Intn(4), 1 + r.Intn(4)}
		} else if i == 1 && r.Intn(2) == 0 {
			if t0 := w.get(0); t0 != nil && t0.Dims() == 2 {
				dt = t0.Dtype().String()
				sh = []int{t0.Shape()[r.Intn(2)]}
			}
		}
		if big && i == 0 {
			dt = []string{"float64", "float64", "float32", "int"}[r.Intn(4)]
			sh = [][]int{{128, 128}, {64, 130}, {130, 64}}[r.Intn(3)]
		}
		op := g.opNew(dt, sh)
		op.N &^= 4
		w.Exec(&op)
		ops = append(ops, op)
		a := op.Out
		t := w.get(a)
		if t == nil {
			continue
		}
		switch r.Intn(6) {
		case 0:
			if t.Dims() > 0 {
				o := Op{Name: "Slice", In: []int{a}, I: g.sliceEnc(t), Out: g.newSlot()}
				w.Exec(&o)
				ops = append(ops, o)
			}
		case 1:
			o := Op{Name: "T", In: []int{a}, Out: -1}
			if t.Dims() > 2 && r.Intn(2) == 0 {
				o.I = g.perm(t.Dims())
			}
			w.Exec(&o)
			ops = append(ops, o)
		case 2:
			o := Op{Name: "PkgTranspose", In: []int{a}, Out: g.newSlot()}
			w.Exec(&o)
			ops = append(ops, o)
		}
	}
	if !big && r.Intn(3) == 0 {
		// a shared compressed sparse matrix (one or two), read by the clients through SparseRead
		for k := 1 + r.Intn(2); k > 0; k-- {
			rows, cols := 1+r.Intn(4), 2+r.Intn(5)
			n := 1 + r.Intn(8)
			I := []int{rows, cols, n}
			for i := 0; i < n; i++ {
				I = append(I, r.Intn(rows))
			}
			for i := 0; i < n; i++ {
				I = append(I, r.Intn(cols))
			}
			o := Op{Name: "SharedCS", S: []string{"float64", "int", "float32"}[r.Intn(3)], I: I, N: r.Intn(2), F: float64(r.Intn(900)), Out: -1}
			w.Exec(&o)
			ops = append(ops, o)
		}
	}
	return ops
}

func sharedHashes(w *World, withData bool) []uint64 {
	hs := make([]uint64, w.nshared)
	for i := 0; i < w.nshared; i++ {
		if t := w.slots[i]; t != nil {
			h := tensor.VerifMetaHash(t)
			if withData {
				h = fnvU64(h, dataHash(t))
			}
			hs[i] = h
		}
	}
	return hs
}

// sharedRel hashes what must stay fixed about the shared tensors, independent of addresses.
func sharedSnaps(w *World) []Snap {
	sn := make([]Snap, w.nshared)
	for i := 0; i < w.nshared; i++ {
		if t := w.slots[i]; t != nil {
			sn[i] = snapOf(t)
		}
	}
	return sn
}

func clientWorld(shared *World, c int) *World {
	w := newWorld(true)
	w.client = c
	w.nshared = shared.nshared
	w.slots = append([]*tensor.Dense(nil), shared.slots[:shared.nshared]...)
	w.sparse = shared.sparse
	w.eng = &FaultEng{st: &faultState{}}
	return w
}

// soloRun executes client c's program alone. With prog == nil the program is generated.
func soloRun(cs *C18Case, c int, gen *RNG, length int, adversarial bool, st *C18Stats) ([]Op, []Outcome, bool) {
	S.countOnly = true
	tensor.UsePool()
	tensor.VerifDrainChanPools()
	P.Reset(adversarial)
	P.recycleNum, P.dropDen, P.policy = cs.RecycleNum, cs.DropDen, cs.Policy
	resetFinalizers()
	shared := buildShared(cs.Setup)
	before := sharedSnaps(shared)
	w := clientWorld(shared, 0)
	w.adv = false
	var env Env
	var prog []Op
	var g *Gen
	if gen != nil {
		g = &Gen{r: gen, w: w, maxLive: 3 + w.nshared + gen.Intn(4), c18: true, noFault: gen.Intn(3) > 0, big: cs.Big}
	} else {
		prog = cs.Programs[c]
		length = len(prog)
	}
	outs := make([]Outcome, 0, length)
	tail := 0
	if g != nil && gen.Intn(3) == 0 {
		// a client that ends by handing its tensors back to the pool (the pool-full branches of
		// ReturnTensor are only interesting when several clients are in them at once)
		tail = 1 + gen.Intn(2)
		length += tail
	}
	for k := 0; k < length; k++ {
		var op Op
		if g != nil && k >= length-tail {
			var ok bool
			if op, ok = g.genLifecycle(true); !ok || op.Name != "ReturnTensor" {
				op = g.Next()
			}
			op.Fam = "lifecycle"
		} else if g != nil && cs.Micro {
			op = microOp(gen, g, k)
			if gen.Intn(2) == 0 {
				op.Adv = gen.Next() | 1
			}
		} else if g != nil {
			op = g.Next()
			if gen.Intn(8) > 0 {
				op.Adv = gen.Next() | 1
			}
		} else {
			op = prog[k]
		}
		w.step = k
		P.BeginOp(0, op.Adv)
		o := w.Exec(&op)
		if adversarial && cs.Env && op.Adv != 0 {
			ar := RNG{s: op.Adv ^ 0xe17}
			if ar.Intn(3) == 0 {
				env.Step(&ar)
			}
		}
		P.BeginOp(0, 0)
		if g != nil {
			prog = append(prog, op)
			if st != nil {
				st.Families[op.Fam]++
				st.OpNames[op.Name]++
			}
		}
		outs = append(outs, o)
	}
	env.Flush()
	after := sharedSnaps(shared)
	mutated := false
	for i := range before {
		if before[i] != after[i] {
			mutated = true
		}
	}
	return prog, outs, mutated
}

var lastConc *concResult

var c18SoloYields uint64

type concResult struct {
	outs      [][]Outcome
	sharedMut string
	ledger    string
	deadlock  bool
	digest    uint64
}

// concRun executes all programs concurrently under the scheduler (generating or replaying the tape).
func concRun(cs *C18Case, sr *RNG, replay bool, st *C18Stats) *concResult {
	tensor.UsePool()
	tensor.VerifDrainChanPools()
	// the library as a fresh process finds it: its lazily filled tables (the map of scalar-buffer pools) are
	// empty again, so that the clients meet in the creation paths too, not only in the lookups
	tensor.VerifInstall(P.Hooks())
	P.Reset(true)
	P.recycleNum, P.dropDen, P.policy = cs.RecycleNum, cs.DropDen, cs.Policy
	resetFinalizers()
	if cs.DensePre > 0 {
		tensor.VerifFillDensePool(cs.DensePre)
	}
	shared := buildShared(cs.Setup)
	n := cs.Clients
	worlds := make([]*World, n)
	res := &concResult{outs: make([][]Outcome, n)}
	envs := make([]Env, n)
	for c := 0; c < n; c++ {
		worlds[c] = clientWorld(shared, c)
		worlds[c].adv = false
		res.outs[c] = make([]Outcome, len(cs.Programs[c]))
	}
	S.Reset(*flagSites)
	if replay {
		S.LoadTape(cs.Tape)
	} else {
		var expect uint64
		for c := 0; c < n; c++ {
			expect += uint64(len(cs.Programs[c])) * 400
		}
		if c18SoloYields > expect {
			expect = c18SoloYields // measured while the programs ran alone (large tensors: millions of statements)
		}
		cs.Strategy = S.SetupRandom(sr, n, expect, cs.Micro || cs.ConcFirst)
	}
	if !raceEnabled {
		init0 := sharedHashes(shared, true)
		initMeta := sharedHashes(shared, false)
		nsw := 0
		S.onSwitch = func(from, to int) {
			if res.sharedMut != "" {
				return
			}
			nsw++
			if cs.Big && nsw&1023 != 0 {
				// large shared tensors: metadata (which includes the mask) at every 16th switch, elements at every
				// 1024th, and everything after the run
				if nsw&15 != 0 {
					return
				}
				now := sharedHashes(shared, false)
				for i := range now {
					if now[i] != initMeta[i] {
						res.sharedMut = fmt.Sprintf("shared tensor in slot %d differs from its initial state (metadata) at a context switch (client %d -> %d, client %d in operation %d)", i, from, to, from, S.inOp[from])
					}
				}
				return
			}
			now := sharedHashes(shared, true)
			for i := range now {
				if now[i] != init0[i] {
					res.sharedMut = fmt.Sprintf("shared tensor in slot %d differs from its initial state at a context switch (client %d -> %d, client %d in operation %d)", i, from, to, from, S.inOp[from])
				}
			}
		}
	}
	before := sharedSnaps(shared)
	body := func(c int) {
		w := worlds[c]
		prog := cs.Programs[c]
		for k := range prog {
			op := prog[k]
			w.step = k
			if cs.DensePre > 0 && (op.Adv>>7)%3 == 0 {
				// other users of the package keep handing tensors back: the pool is topped up to its level again
				tensor.VerifFillDensePool(cs.DensePre)
			}
			S.inOp[c] = k
			P.BeginOp(c, op.Adv)
			o := w.Exec(&op)
			S.inOp[c] = -1 // (the step budget is only enforced inside operations)
			if cs.Env && op.Adv != 0 {
				ar := RNG{s: op.Adv ^ 0xe17}
				if ar.Intn(3) == 0 {
					envs[c].Step(&ar)
				}
			}
			P.BeginOp(c, 0)
			res.outs[c][k] = o
			if o.St == stDeadlock {
				break // (recorded in the outcome; collected after the run - several clients may get here)
			}
			S.Boundary()
		}
		envs[c].Flush()
	}
	S.Run(n, body)
	cs.Tape = append([]Switch(nil), S.tape...)
	after := sharedSnaps(shared)
	if res.sharedMut == "" {
		for i := range before {
			if before[i] != after[i] {
				res.sharedMut = fmt.Sprintf("shared tensor in slot %d changed its %sduring the concurrent run", i, diffSnap(before[i], after[i]))
			}
		}
	}
	res.deadlock = S.deadlock
	for c := range res.outs {
		for _, o := range res.outs[c] {
			if o.St == stDeadlock {
				res.deadlock = true
			}
		}
	}
	d := uint64(fnvOff)
	for c := range res.outs {
		for _, o := range res.outs[c] {
			d = fnvU64(fnvU64(d, uint64(o.St)), o.H)
		}
	}
	d = fnvU64(d, S.sigK)
	d = fnvU64(d, P.digest)
	res.digest = d
	if P.stats.DupHandout > 0 {
		res.ledger = "a pool handed out an object that another owner still holds (the object was in the free list twice)"
	} else if P.stats.DoubleReturn > 0 {
		res.ledger = "the same object was given back to a pool twice without having been borrowed in between"
	}
	if st != nil {
		st.Yields += S.total
		st.Switches += S.switches
		st.SwitchesInOp += S.switchesInOp
		if S.total > st.MaxYields {
			st.MaxYields = S.total
		}
		if S.switchesInOp > 0 {
			st.Sigs[S.sig] = struct{}{}
		}
		addPoolStats(&st.Pool, &P.stats)
		for c := range envs {
			addPoolStats(&st.Pool, &envs[c].st)
		}
		for c := range F {
			st.FinalizersFired += F[c].fired
		}
	}
	return res
}

func genC18(seed uint64, tier string, st *C18Stats) *C18Case {
	r := RNG{s: seed}
	cs := &C18Case{Seed: seed}
	switch k := r.Intn(10); {
	case k < 5:
		cs.Clients = 2
	case k < 8:
		cs.Clients = 3 + r.Intn(2)
	case k < 9:
		cs.Clients = 5 + r.Intn(4)
	default:
		cs.Clients = 9 + r.Intn(8)
	}
	cs.RecycleNum = []int{8, 8, 7, 6, 4}[r.Intn(5)]
	cs.DropDen = []int{0, 0, 16, 8, 3}[r.Intn(5)]
	cs.Policy = r.Intn(3)
	cs.Env = r.Intn(3) == 0
	k := r.Intn(12)
	if os.Getenv("VERIF_FORCE_POOL_ALMOST_FULL") != "" {
		k = 1
	}
	switch k {
	case 0:
		cs.DensePre = tensor.PoolSize
	case 1, 2:
		cs.DensePre = tensor.PoolSize - 1 - r.Intn(3)
	}
	if r.Intn(60) == 0 || os.Getenv("VERIF_FORCE_BIG") != "" {
		cs.Big = true
		cs.Clients = 2 + r.Intn(2)
	}
	if !cs.Big && r.Intn(8) == 0 {
		// contention runs: very short programs that all go through the same internal tables (scalar buffers of
		// different sizes, the ints pools, the tensor pool), scheduled at synchronisation statements: thousands of
		// them fit into the time of one ordinary run, which is what windows of several preemptions need
		cs.Micro = true
		cs.Clients = 3 + r.Intn(2)
		cs.DensePre = 0
	}
	sr := r.Fork(0x5e7)
	cs.Setup = genSetup(&sr, cs.Big)
	cs.Programs = make([][]Op, cs.Clients)
	return cs
}

// execC18 runs one case: solo oracle, concurrent run, comparison. With replay the recorded tape is followed.
func execC18(cs *C18Case, tier string, replay bool, st *C18Stats) (*Violation, uint64) {
	setBig(cs.Big)
	r := RNG{s: cs.Seed ^ 0xc18c18}
	solo := make([][]Outcome, cs.Clients)
	var res *concResult
	if cs.ConcFirst {
		// a process that has not touched the library yet: whatever it initialises lazily, the clients meet in it
		for _, p := range cs.Programs {
			if p == nil {
				return nil, 0
			}
		}
		c18SoloYields = 0
		sr := r.Fork(0x5c4ed)
		res = concRun(cs, &sr, replay && len(cs.Tape) > 0, st)
		if res.deadlock || S.overBudget {
			goto judge // nothing more can be run in this process
		}
	}
	S.soloYields = 0
	for c := 0; c < cs.Clients; c++ {
		var gen *RNG
		length := 0
		if cs.Programs[c] == nil && !replay {
			g := r.Fork(uint64(c) + 77)
			gen = &g
			maxLen := 12
			if tier == "thorough" {
				maxLen = 40
			}
			if cs.Clients > 4 {
				maxLen = maxLen/2 + 1
			}
			length = 3 + g.Intn(maxLen)
			if cs.Big {
				length = 2 + g.Intn(4)
			}
			if cs.Micro {
				length = 2 + g.Intn(4)
			}
		}
		prog, outs, mut := soloRun(cs, c, gen, length, false, st)
		cs.Programs[c] = prog
		solo[c] = outs
		for _, o := range outs {
			if o.St == stBudget {
				// does not terminate even alone: not a concurrency matter (see the note in c19.go)
				if st != nil {
					st.SoloUnterminated++
				}
				return nil, 0
			}
		}
		if mut {
			// a client that changes a shared tensor when running alone is a sequential defect
			// (C19's frame oracle), not a concurrency one
			if st != nil {
				st.SoloSharedMut++
			}
			if *flagVerbose {
				fmt.Fprintf(os.Stderr, "C18 seed %d: client %d alone changes a shared tensor; setup %v program %v\n", cs.Seed, c, cs.Setup, prog)
			}
			return nil, 0
		}
	}
	if res == nil {
		c18SoloYields = S.soloYields
		sr := r.Fork(0x5c4ed)
		res = concRun(cs, &sr, replay, st)
	}
judge:
	if S.tapeFull {
		// more context switches than the tape holds: the run was cut short and says nothing
		if st != nil {
			st.TapeFull++
		}
		if *flagVerbose {
			fmt.Fprintf(os.Stderr, "C18 seed %d: tape overflow: strategy %s, %d clients, big=%v micro=%v, %d yields\n", cs.Seed, cs.Strategy, cs.Clients, cs.Big, cs.Micro, S.total)
		}
		return nil, res.digest
	}
	lastConc = res
	if st != nil {
		if cs.Big {
			st.BigRuns++
		}
		if cs.Micro {
			st.MicroRuns++
		}
		st.Runs++
		st.Clients[cs.Clients]++
		st.Strategies[cs.Strategy]++
		for c := range cs.Programs {
			st.Ops += uint64(len(cs.Programs[c]))
		}
	}
	if S.overBudget {
		return &Violation{Property: "C18", Kind: "no-termination", FailOp: siteName(S.budgetSite), Class: "budget",
			Detail: fmt.Sprintf("the concurrent run was still executing after %d statements (client %d, last at %s): an operation does not terminate under this interleaving", S.maxYields, S.budgetClient, siteName(S.budgetSite)), Ops: allOpNames(cs)}, res.digest
	}
	if res.deadlock {
		return &Violation{Property: "C18", Kind: "deadlock", FailOp: siteName(S.deadlockSite), Class: "deadlock",
			Detail: fmt.Sprintf("every unfinished client is blocked (first at site %d)", S.deadlockSite), Ops: allOpNames(cs)}, res.digest
	}
	if res.sharedMut != "" {
		return &Violation{Property: "C18", Kind: "shared-mutated", FailOp: inFlightOps(cs), Class: "shared", Detail: res.sharedMut, Ops: allOpNames(cs)}, res.digest
	}
	if res.ledger != "" {
		// interference through a pool, whether or not a result happened to differ in this interleaving (the ledger
		// is exact, see sim/pool.go)
		kinds := [...]string{"ints", "OpOpt", "scalar buffer"}
		kd := ""
		if k := int(P.lastDouble >> 8); P.stats.DoubleReturn > 0 && k < len(kinds) {
			kd = fmt.Sprintf(" (%s pool, class %d)", kinds[k], P.lastDouble&0xff)
		}
		return &Violation{Property: "C18", Kind: "pool-ledger", FailOp: "pool", Class: "double-return", Detail: res.ledger + kd, Ops: allOpNames(cs)}, res.digest
	}
	for c := range solo {
		for k := range solo[c] {
			if k < len(res.outs[c]) && res.outs[c][k] != solo[c][k] {
				// is the difference already there without any other client (pure history dependence)?
				_, advOuts, _ := soloRun(cs, c, nil, 0, true, nil)
				if k < len(advOuts) && advOuts[k] != solo[c][k] {
					if st != nil {
						st.SeqSkips++
					}
					return nil, res.digest
				}
				op := cs.Programs[c][k]
				return &Violation{Property: "C18", Kind: "result-mismatch", Step: k, FailOp: op.Name, Class: "outcome",
					Detail: fmt.Sprintf("client %d operation %d (%s): alone %s, interleaved %s", c, k, op.String(), outStr(solo[c][k]), outStr(res.outs[c][k])), Ops: allOpNames(cs)}, res.digest
			}
		}
	}
	return nil, res.digest
}

func allOpNames(cs *C18Case) []string {
	var all []Op
	for _, p := range cs.Programs {
		all = append(all, p...)
	}
	return opNames(all)
}

func inFlightOps(cs *C18Case) string {
	return "shared"
}

var siteNames map[uint32]string

func siteName(id uint32) string {
	if n, ok := siteNames[id]; ok {
		return n
	}
	return fmt.Sprintf("site#%d", id)
}

// minimiseC18 drops clients, then operations, then switch points while the same kind of violation persists.
func minimiseC18(cs *C18Case, v *Violation, tier string, budget int) (*C18Case, *Violation) {
	best, bv := cs, v
	clone := func(c *C18Case) *C18Case {
		n := *c
		n.Programs = make([][]Op, len(c.Programs))
		for i := range c.Programs {
			n.Programs[i] = append([]Op(nil), c.Programs[i]...)
		}
		n.Tape = append([]Switch(nil), c.Tape...)
		n.Setup = append([]Op(nil), c.Setup...)
		return &n
	}
	try := func(c *C18Case) bool {
		if budget <= 0 {
			return false
		}
		budget--
		nv, _ := execC18(c, tier, true, nil)
		if nv != nil && nv.Kind == bv.Kind && (nv.Kind != "result-mismatch" || nv.FailOp == bv.FailOp) {
			best, bv = c, nv
			return true
		}
		return false
	}
	// clients (keep at least 2; client ids in the tape are remapped)
	for c := best.Clients - 1; c >= 0 && best.Clients > 2; c-- {
		cand := clone(best)
		cand.Programs = append(cand.Programs[:c], cand.Programs[c+1:]...)
		cand.Clients--
		var tp []Switch
		for _, s := range cand.Tape {
			if s.C == c {
				continue
			}
			if s.Next == c {
				continue
			}
			if s.C > c {
				s.C--
			}
			if s.Next > c {
				s.Next--
			}
			tp = append(tp, s)
		}
		cand.Tape = tp
		try(cand)
	}
	// operations per client
	for c := 0; c < best.Clients; c++ {
		for chunk := len(best.Programs[c]) / 2; chunk >= 1; chunk /= 2 {
			for i := 0; i+chunk <= len(best.Programs[c]) && budget > 0; {
				cand := clone(best)
				cand.Programs[c] = append(cand.Programs[c][:i], cand.Programs[c][i+chunk:]...)
				if !try(cand) {
					i += chunk
				}
			}
		}
	}
	// switch points
	for chunk := len(best.Tape) / 2; chunk >= 1; chunk /= 2 {
		for i := 0; i+chunk <= len(best.Tape) && budget > 0; {
			cand := clone(best)
			cand.Tape = append(cand.Tape[:i], cand.Tape[i+chunk:]...)
			if !try(cand) {
				i += chunk
			}
		}
	}
	return best, bv
}

func replayC18(c *C18Case) *Violation {
	before := raceLogSize()
	v, _ := execC18(c, "thorough", true, nil)
	if v == nil && raceLogSize() > before {
		return &Violation{Property: "C18", Kind: "race", Class: "race", FailOp: "race", Detail: "race detector report (see the race log)"}
	}
	return v
}

func raceLogSize() int64 {
	if !raceEnabled || flagRaceLog == "" {
		return 0
	}
	fi, err := os.Stat(fmt.Sprintf("%s.%d", flagRaceLog, os.Getpid()))
	if err != nil {
		return 0
	}
	return fi.Size()
}

func raceLogTail(from int64) string {
	b, err := os.ReadFile(fmt.Sprintf("%s.%d", flagRaceLog, os.Getpid()))
	if err != nil || int64(len(b)) <= from {
		return ""
	}
	return string(b[from:])
}

// raceInLibrary reports whether at least one of the two conflicting accesses of a race report
// happened in library code (innermost frame outside the Go runtime), as opposed to both in the harness.
func raceInLibrary(rep string) bool {
	lines := strings.Split(rep, "\n")
	lib := false
	for i := 0; i < len(lines); i++ {
		ln := strings.TrimSpace(lines[i])
		if !(strings.HasPrefix(ln, "Read at") || strings.HasPrefix(ln, "Write at") || strings.HasPrefix(ln, "Previous read at") ||
			strings.HasPrefix(ln, "Previous write at") || strings.HasPrefix(ln, "Atomic")) {
			continue
		}
		for j := i + 1; j < len(lines); j += 2 {
			fn := strings.TrimSpace(lines[j])
			if fn == "" {
				break
			}
			if strings.HasPrefix(fn, "runtime.") || strings.HasPrefix(fn, "sync.") || strings.HasPrefix(fn, "sync/atomic.") || strings.HasPrefix(fn, "internal/") {
				continue
			}
			if !strings.HasPrefix(fn, "main.") {
				lib = true
			}
			break
		}
	}
	return lib
}

func workC18(res *WorkerResult, start time.Time) {
	st := newC18Stats()
	for i := uint64(0); i < *flagRuns; i++ {
		if overBudget(start) {
			break
		}
		run := *flagFirst + i
		progress(run)
		rs := mix(*flagSeed, run^0xc18)
		cs := genC18(rs, *flagTier, st)
		logBefore := raceLogSize()
		v, dg := execC18(cs, *flagTier, false, st)
		res.Done++
		if *flagDigests {
			fmt.Printf("%d %016x %v", run, dg, v != nil)
			if *flagVerbose && os.Getenv("VERIF_DUMP") != "" {
				for c := range cs.Programs {
					for k, o := range lastConc.outs[c] {
						fmt.Printf("\n   c%d.%d %s %s", c, k, cs.Programs[c][k].Name, outStr(o))
					}
				}
			}
			if *flagVerbose && os.Getenv("VERIF_DUMP") == "2" {
				for _, sw := range cs.Tape {
					fmt.Printf("\n   sw %+v", sw)
				}
			}
			if *flagVerbose {
				fmt.Printf(" sig=%016x pool=%016x yields=%d switches=%d clients=%d", S.sig, P.digest, S.total, S.switches, cs.Clients)
			}
			fmt.Println()
			continue
		}
		if raceEnabled && raceLogSize() > logBefore {
			rep := raceLogTail(logBefore)
			if !raceInLibrary(rep) {
				fmt.Fprintf(os.Stderr, "tsim: C18 run %d: race report with harness frames only (harness defect):\n%s\n", run, rep)
				os.Exit(2)
			}
			st.Races++
			if len(rep) > 6000 {
				rep = rep[:6000]
			}
			v = &Violation{Property: "C18", Kind: "race", FailOp: raceFuncs(rep), Class: "race", Detail: rep, Ops: allOpNames(cs)}
			from := map[string]int{"clients": cs.Clients, "ops": totalOps(cs), "switches": len(cs.Tape)}
			if len(res.Violations) < 3 {
				// the detector reports a given race once per process, so candidates are tried in fresh processes
				cs = minimiseRace(cs, 40)
			}
			rf := ReplayFile{Property: "C18", Violation: v, Seed: *flagSeed, Run: run, Tags: *flagTags, C18: cs, From: from}
			path := saveReplay(&rf)
			res.Violations = append(res.Violations, rf)
			res.Replays = append(res.Replays, path)
			if len(res.Violations) >= *flagMaxViol {
				break
			}
			continue
		}
		if v == nil && !cs.Big && freshWorthwhile(cs, rs) {
			// now and then the same programs once more, in a new process and with the interleaved run first
			st.FreshRuns++
			if fv, fcs := freshConcFirst(cs); fv != nil {
				// confirm: the saved case must fail again in another new process
				if raceRecurs(fcs) {
					fcs = minimiseRace(fcs, 24)
					rf := ReplayFile{Property: "C18", Violation: fv, Seed: *flagSeed, Run: run, Tags: *flagTags, C18: fcs, From: map[string]int{"clients": cs.Clients}}
					path := saveReplay(&rf)
					res.Violations = append(res.Violations, rf)
					res.Replays = append(res.Replays, path)
					if len(res.Violations) >= *flagMaxViol {
						break
					}
				} else {
					st.Unreproducible++
				}
			}
			continue
		}
		if v == nil {
			if len(st.Samples) < 2 && cs.Clients == 2 && len(cs.Programs[0])+len(cs.Programs[1]) <= 12 {
				st.Samples = append(st.Samples, map[string]interface{}{"seed": rs, "strategy": cs.Strategy, "setup": cs.Setup, "programs": cs.Programs, "switches": len(cs.Tape), "first_switches": firstN(cs.Tape, 12)})
			}
			continue
		}
		if v.Kind == "deadlock" {
			st.Deadlocks++
		}
		orig := map[string]int{"clients": cs.Clients, "switches": len(cs.Tape)}
		if v.Kind == "deadlock" || v.Kind == "no-termination" {
			// A goroutine that will never run again may hold one of the library's own locks for good: nothing
			// more can be executed in this process (the next run would block in the library, outside the
			// scheduler's reach). The case is confirmed and minimised in fresh processes, then this worker ends.
			if !raceRecurs(cs) {
				st.Unreproducible++
				fmt.Fprintf(os.Stderr, "tsim: C18 run %d: %s did not recur in a fresh process; counted, not reported\n", run, v.Kind)
				break
			}
			mc := minimiseRace(cs, 30)
			rf := ReplayFile{Property: "C18", Violation: v, Seed: *flagSeed, Run: run, Tags: *flagTags, C18: mc, From: orig}
			path := saveReplay(&rf)
			res.Violations = append(res.Violations, rf)
			res.Replays = append(res.Replays, path)
			break
		}
		confirmGC = true
		mc, mv := minimiseC18(cs, v, *flagTier, 150)
		rv, _ := execC18(mc, *flagTier, true, nil)
		confirmGC = false
		if rv == nil || rv.Kind != mv.Kind {
			// see the note in workC19
			st.Unreproducible++
			fmt.Fprintf(os.Stderr, "tsim: C18 run %d: mismatch did not recur on re-execution (%s); counted, not reported\n", run, v.Kind)
			continue
		}
		rf := ReplayFile{Property: "C18", Violation: mv, Seed: *flagSeed, Run: run, Tags: *flagTags, C18: mc, From: orig}
		path := saveReplay(&rf)
		res.Violations = append(res.Violations, rf)
		res.Replays = append(res.Replays, path)
		if *flagVerbose {
			fmt.Fprintf(os.Stderr, "C18 run %d: %s: %s\n", run, mv.Kind, mv.Detail)
		}
		if len(res.Violations) >= *flagMaxViol {
			break
		}
	}
	var hit []uint32
	for w, bits := range S.cover {
		for b := 0; b < 64; b++ {
			if bits&(1<<uint(b)) != 0 {
				hit = append(hit, uint32(w*64+b))
			}
		}
	}
	res.SitesHit = hit
	res.Distinct = keysOf(st.Sigs)
	res.Stats = map[string]interface{}{
		"runs": st.Runs, "ops": st.Ops, "yields": st.Yields, "switches": st.Switches, "switches_in_op": st.SwitchesInOp,
		"seq_skips": st.SeqSkips, "solo_shared_mutations": st.SoloSharedMut, "solo_unterminated": st.SoloUnterminated, "tape_overflow_skips": st.TapeFull, "runs_with_large_tensors": st.BigRuns, "contention_runs": st.MicroRuns, "fresh_process_runs": st.FreshRuns, "unreproducible_mismatches": st.Unreproducible, "strategies": st.Strategies,
		"families": st.Families, "op_names": st.OpNames, "pool": st.Pool, "distinct_schedule_signatures": len(st.Sigs),
		"clients": st.Clients, "races": st.Races, "deadlocks": st.Deadlocks, "finalizers_fired": st.FinalizersFired,
		"max_yields_in_a_run": st.MaxYields, "samples": st.Samples,
	}
}

func firstN(t []Switch, n int) []Switch {
	if len(t) > n {
		return t[:n]
	}
	return t
}

// raceFuncs extracts the library function names of the two top frames of a race report.
func raceFuncs(rep string) string {
	var fns []string
	for _, ln := range strings.Split(rep, "\n") {
		ln = strings.TrimSpace(ln)
		if strings.HasPrefix(ln, "gorgonia.org/tensor") {
			if i := strings.Index(ln, "("); i > 0 && strings.HasSuffix(ln, ")") {
				ln = ln[:strings.LastIndex(ln, "(")]
			}
			fns = append(fns, ln)
			if len(fns) == 4 {
				break
			}
		}
	}
	return strings.Join(fns, " | ")
}

func totalOps(cs *C18Case) int {
	n := 0
	for _, p := range cs.Programs {
		n += len(p)
	}
	return n
}

// raceRecurs re-executes a case in a fresh process of this binary and reports whether the race detector fires again.
func raceRecurs(cs *C18Case) bool {
	dir, err := os.MkdirTemp("", "tsim-race-")
	if err != nil {
		return false
	}
	defer os.RemoveAll(dir)
	path := dir + "/case.json"
	if writeJSON(path, &ReplayFile{Property: "C18", C18: cs, Tags: *flagTags, Violation: &Violation{Property: "C18", Kind: "race"}}) != nil {
		return false
	}
	cmd := exec.Command(os.Args[0], "-replay", path, "-racelog", dir+"/log", "-sites", fmt.Sprint(*flagSites))
	cmd.Env = append(os.Environ(), "GORACE=log_path="+dir+"/log halt_on_error=0 exitcode=0", "GOMAXPROCS=1")
	if err := cmd.Run(); err != nil {
		if ee, ok := err.(*exec.ExitError); ok {
			return ee.ExitCode() == 1
		}
	}
	return false
}

// minimiseRace drops clients and then operations while a fresh process still reports a race.
func minimiseRace(cs *C18Case, budget int) *C18Case {
	clone := func(c *C18Case) *C18Case {
		n := *c
		n.Programs = make([][]Op, len(c.Programs))
		for i := range c.Programs {
			n.Programs[i] = append([]Op(nil), c.Programs[i]...)
		}
		n.Tape = append([]Switch(nil), c.Tape...)
		return &n
	}
	best := cs
	if !raceRecurs(best) {
		return cs // does not even recur unminimised: keep the original for diagnosis
	}
	try := func(c *C18Case) bool {
		if budget <= 0 {
			return false
		}
		budget--
		if raceRecurs(c) {
			best = c
			return true
		}
		return false
	}
	for c := best.Clients - 1; c >= 0 && best.Clients > 2; c-- {
		cand := clone(best)
		cand.Programs = append(cand.Programs[:c], cand.Programs[c+1:]...)
		cand.Clients--
		var tp []Switch
		for _, s := range cand.Tape {
			if s.C == c || s.Next == c {
				continue
			}
			if s.C > c {
				s.C--
			}
			if s.Next > c {
				s.Next--
			}
			tp = append(tp, s)
		}
		cand.Tape = tp
		try(cand)
	}
	for c := 0; c < best.Clients; c++ {
		for chunk := (len(best.Programs[c]) + 1) / 2; chunk >= 1; chunk /= 2 {
			for i := 0; i+chunk <= len(best.Programs[c]) && budget > 0; {
				cand := clone(best)
				cand.Programs[c] = append(cand.Programs[c][:i], cand.Programs[c][i+chunk:]...)
				if !try(cand) {
					i += chunk
				}
			}
		}
	}
	return best
}

// microOp: the k-th operation of a contention program - first a small private tensor of an element type of the
// client's own choosing, then operations with a Go scalar on it (each borrows and returns a scalar buffer of the
// element's size, an OpOpt and shape slices) and now and then a ReturnTensor of a result.
func microOp(r *RNG, g *Gen, k int) Op {
	w := g.w
	first := w.nshared
	if k == 0 || w.get(first) == nil {
		for len(w.slots) < first {
			w.slots = append(w.slots, nil)
		}
		dt := []string{"float64", "float32", "int8", "int16", "complex128", "int32", "float64", "uint8"}[r.Intn(8)]
		op := Op{Name: "New", S: dt, I: []int{1 + r.Intn(3)}, Out: g.newSlot(), F: float64(r.Intn(50)), Fam: "construct"}
		return op
	}
	a := first
	if n := len(w.slots); n > first+1 && r.Intn(3) == 0 {
		if x := first + r.Intn(n-first); w.get(x) != nil {
			a = x
		}
	}
	if a != first && r.Intn(4) == 0 {
		return Op{Name: "ReturnTensor", In: []int{a}, Out: -1, Fam: "lifecycle"}
	}
	names := []string{"Add", "Sub", "Mul", "Lt", "Gt", "ElEq"}
	op := Op{Name: names[r.Intn(len(names))], In: []int{a}, Out: g.newSlot(), F: float64(1 + r.Intn(3)), Form: []string{"vs", "sv"}[r.Intn(2)], Fam: "arith"}
	return op
}

// freshConcFirst executes the case in a new process of this binary in which the interleaved run comes first: the
// library's lazily initialised state (compiled regexps, tables filled on first use, sync.Once-like guards) is then
// initialised by clients that meet in it. The solo oracle of that process runs afterwards. Returns the case as the
// child executed it (tape included) if the child found a violation.
func freshConcFirst(cs *C18Case) (*Violation, *C18Case) {
	dir, err := os.MkdirTemp("", "tsim-fresh-")
	if err != nil {
		return nil, nil
	}
	defer os.RemoveAll(dir)
	cc := *cs
	cc.ConcFirst = true
	cc.Tape = nil
	cc.Strategy = ""
	in, out := dir+"/case.json", dir+"/found.json"
	if writeJSON(in, &ReplayFile{Property: "C18", C18: &cc, Tags: *flagTags, Seed: *flagSeed}) != nil {
		return nil, nil
	}
	args := []string{"-replay", in, "-replayout", out, "-racelog", dir + "/log", "-sites", fmt.Sprint(*flagSites), "-tier", *flagTier}
	if *flagSiteFile != "" {
		args = append(args, "-sitefile", *flagSiteFile)
	}
	cmd := exec.Command(os.Args[0], args...)
	cmd.Env = append(os.Environ(), "GORACE=log_path="+dir+"/log halt_on_error=0 exitcode=0", "GOMAXPROCS=1")
	if err := cmd.Run(); err == nil {
		return nil, nil
	} else if ee, ok := err.(*exec.ExitError); !ok || ee.ExitCode() != 1 {
		return nil, nil
	}
	b, err := os.ReadFile(out)
	if err != nil {
		return nil, nil
	}
	var rf ReplayFile
	if json.Unmarshal(b, &rf) != nil || rf.C18 == nil || rf.Violation == nil {
		return nil, nil
	}
	return rf.Violation, rf.C18
}

// freshWorthwhile picks the cases that are run once more in a new process: one in 600 of all, one in 30 of those in
// which at least two clients use the families that lean on the standard library's lazily built machinery
// (serialisation, formatting, conversion).
func freshWorthwhile(cs *C18Case, rs uint64) bool {
	n := 0
	for _, p := range cs.Programs {
		for _, op := range p {
			if op.Fam == "serialise" || op.Fam == "convert" || op.Name == "Format" {
				n++
				break
			}
		}
	}
	heavy, rest := uint64(30), uint64(600)
	if *flagTier != "thorough" || raceEnabled {
		heavy, rest = 120, 2400 // (a new process costs a hundred ordinary runs, several hundred under the race detector)
	}
	if n >= 2 {
		return rs%heavy == 0
	}
	return rs%rest == 0
}
