package main

import (
	"gorgonia.org/tensor"
	"strings"
)

// Gen produces the next literal operation from the current state of the (reference) world, so that
// arguments fit the shapes that actually exist. The program it produced is then re-executed
// literally elsewhere (adversarial world, concurrent run, replay).
type Gen struct {
	r       *RNG
	w       *World
	maxLive int
	c18     bool // client program of the concurrency check: shared slots are read-only
	queue   []Op
	famHits map[string]int
	noFault bool
	loose   bool // allow ReturnTensor of tensors that still have views / shallow clones
	big     bool // now and then a tensor of 4097..2^17 elements
}

var families = []string{"kernelprobe", "construct", "access", "slice", "transpose", "copy", "iter", "arith", "cmp", "unary", "reduce",
	"product", "assemble", "reshape", "serialise", "mask", "convert", "lifecycle"}

func (g *Gen) pickDt() string {
	switch g.r.Intn(10) {
	case 0, 1, 2, 3:
		return "float64"
	case 4:
		return "float32"
	case 5:
		return "int"
	}
	return dtNames[g.r.Intn(len(dtNames))]
}

// bigShapes: sizes beyond every "small tensor" fast path one is likely to meet (4096, 8192, 65536 elements or bytes).
// The race build is several times slower per statement and stays below 2^15 elements.
func bigShapes() [][]int {
	if raceEnabled {
		return [][]int{{128, 128}, {9000}, {64, 130}, {130, 64}, {20, 20, 21}}
	}
	return [][]int{{128, 128}, {9000}, {64, 130}, {70000}, {256, 300}, {300, 256}, {65536}, {16, 64, 80}, {4097}, {2, 32768}}
}

func (g *Gen) maxOp() int {
	if g.big {
		return 1 << 17
	}
	return maxOperand
}

func (g *Gen) pickShape(maxRank int) []int {
	if g.big && g.r.Intn(3) == 0 {
		bs := bigShapes()
		return append([]int(nil), bs[g.r.Intn(len(bs))]...)
	}
	rank := g.r.Intn(maxRank + 1)
	if maxRank >= 4 && g.r.Intn(18) == 0 {
		// high ranks: 8 is the largest size class of the ints pool, 9 bypasses it
		rank = 5 + g.r.Intn(5)
	}
	s := make([]int, rank)
	for i := range s {
		s[i] = 1 + g.r.Intn(4)
	}
	for prod(s) > 96 {
		s[g.r.Intn(len(s))] = 1
	}
	return s
}

func (g *Gen) newSlot() int {
	g.w.slots = append(g.w.slots, nil)
	return len(g.w.slots) - 1
}

func (g *Gen) opNew(dt string, shape []int) Op {
	op := Op{Name: "New", S: dt, I: shape, Out: g.newSlot(), F: float64(g.r.Intn(900)), Fam: "construct"}
	if g.r.Intn(12) == 0 {
		op.F = float64(1000 + g.r.Intn(500)) // extremes and non-finite values
	}
	switch k := g.r.Intn(20); {
	case len(shape) == 0:
		op.Mode = "scalar"
	case k < 11:
		op.Mode = "row"
	case k < 14:
		op.Mode = "col"
	case k < 15:
		op.Mode = "colraw"
	case k == 19:
		op.Mode = "rowspare"
	case k < 17:
		op.Mode = "of"
	default:
		op.Mode = "row"
	}
	if g.r.Intn(7) == 0 && op.Mode != "of" && op.Mode != "colraw" && op.Mode != "rowspare" {
		op.N |= 1
	}
	if !g.noFault && g.r.Intn(10) == 0 {
		op.N |= 4
	} else if (dt == "float64" || dt == "float32") && g.r.Intn(8) == 0 {
		op.N |= 8 // the specialised float engine
	}
	return op
}

type pred func(t *tensor.Dense) bool

// maxOperand bounds the size of a tensor that may become an operand again: results of Concat, Stack,
// Repeat, Outer ... grow, and without a bound a chain of them ends in operations of millions of steps.
const maxOperand = 512

func (g *Gen) pick(p pred) int {
	var c, sh []int
	for i, t := range g.w.slots {
		if t != nil && t.Shape().TotalSize() <= g.maxOp() && (p == nil || p(t)) {
			c = append(c, i)
			if i < g.w.nshared {
				sh = append(sh, i)
			}
		}
	}
	if len(c) == 0 {
		return -1
	}
	// concurrency programs: operands are shared tensors half of the time, whatever the population
	if g.c18 && len(sh) > 0 && g.r.Intn(2) == 0 {
		return sh[g.r.Intn(len(sh))]
	}
	// one time in five a view that does not fill its window, if there is one: kernels that run over the
	// window instead of the view's elements only show on those
	if g.r.Intn(5) == 0 {
		var gappy []int
		for _, i := range c {
			if gappyView(g.w.slots[i]) {
				gappy = append(gappy, i)
			}
		}
		if len(gappy) > 0 {
			return gappy[g.r.Intn(len(gappy))]
		}
	}
	return c[g.r.Intn(len(c))]
}

func gappyView(t *tensor.Dense) bool {
	return t != nil && t.IsView() && t.DataSize() != t.Shape().TotalSize()
}

// tainted reports whether slot i shares storage with a shared tensor (C18) or is one.
func (g *Gen) tainted(i int) bool {
	if !g.c18 {
		return false
	}
	if i < g.w.nshared {
		return true
	}
	t := g.w.get(i)
	if t == nil {
		return false
	}
	p, n := rawOf(t)
	for j := 0; j < g.w.nshared; j++ {
		s := g.w.get(j)
		if s == nil {
			continue
		}
		if s == t {
			return true
		}
		q, m := rawOf(s)
		if p != 0 && q != 0 && p < q+uintptr(m) && q < p+uintptr(n) {
			return true
		}
		// a ShallowClone of a shared tensor also shares its mask and saved-AP slices
		if len(t.Mask()) > 0 && len(s.Mask()) > 0 && &t.Mask()[0] == &s.Mask()[0] {
			return true
		}
	}
	return false
}

func (g *Gen) pickWritable(p pred) int {
	var c []int
	for i, t := range g.w.slots {
		if t != nil && t.Shape().TotalSize() <= 4*g.maxOp() && (p == nil || p(t)) && !g.tainted(i) {
			c = append(c, i)
		}
	}
	if len(c) == 0 {
		return -1
	}
	if g.r.Intn(5) == 0 {
		var gappy []int
		for _, i := range c {
			if gappyView(g.w.slots[i]) {
				gappy = append(gappy, i)
			}
		}
		if len(gappy) > 0 {
			return gappy[g.r.Intn(len(gappy))]
		}
	}
	return c[g.r.Intn(len(c))]
}

func sameShapeDt(a *tensor.Dense) pred {
	return func(t *tensor.Dense) bool { return t.Dtype() == a.Dtype() && t.Shape().Eq(a.Shape()) }
}

// sameSizeDt: candidates for a reuse / incr tensor. The library compares the length of the candidate's
// backing window with the expected size, so a view whose WINDOW has the right length (while its logical
// size differs) gets past that check too and fails later, in Reshape - an error path of its own.
func sameSizeDt(a *tensor.Dense) pred {
	return func(t *tensor.Dense) bool {
		n := a.Shape().TotalSize()
		return t.Dtype() == a.Dtype() && (t.Shape().TotalSize() == n || (t.IsView() && t.DataSize() == n)) && !t.IsScalar() == !a.IsScalar()
	}
}

func isDt(names ...string) pred {
	return func(t *tensor.Dense) bool {
		if t.Dtype().Type == nil {
			return false
		}
		for _, n := range names {
			if t.Dtype().String() == n {
				return true
			}
		}
		return false
	}
}

func and(ps ...pred) pred {
	return func(t *tensor.Dense) bool {
		for _, p := range ps {
			if !p(t) {
				return false
			}
		}
		return true
	}
}

// smallInts: a float/complex tensor whose elements are all integers of magnitude <= 64 (any
// integer-typed tensor qualifies). Sums of products over such operands are exact in float32, so
// the result of an accumulating kernel (BLAS, reductions) does not depend on the order in which its
// vectorised loops add things up - an order that depends on the alignment of the allocation.
func smallInts(t *tensor.Dense) bool {
	if t.Dtype().Type == nil {
		return false
	}
	ok := func(f float64) bool { return f == float64(int64(f)) && f >= -64 && f <= 64 }
	switch d := t.Data().(type) {
	case []float64:
		for _, x := range d {
			if !ok(x) {
				return false
			}
		}
	case []float32:
		for _, x := range d {
			if !ok(float64(x)) {
				return false
			}
		}
	case []complex128:
		for _, x := range d {
			if !ok(real(x)) || !ok(imag(x)) {
				return false
			}
		}
	case []complex64:
		for _, x := range d {
			if !ok(float64(real(x))) || !ok(float64(imag(x))) {
				return false
			}
		}
	case float64:
		return ok(d)
	case float32:
		return ok(float64(d))
	case complex128:
		return ok(real(d)) && ok(imag(d))
	case complex64:
		return ok(float64(real(d))) && ok(float64(imag(d)))
	}
	return true
}

func dimsIs(d int) pred { return func(t *tensor.Dense) bool { return t.Dims() == d } }

func (g *Gen) live() int { return len(g.w.liveSlots()) }

// mode picks an option mode for an operation whose first tensor operand is slot a.
func (g *Gen) mode(op *Op, a int, boolResult bool) {
	t := g.w.get(a)
	switch g.r.Intn(8) {
	case 0, 1:
		if !g.tainted(a) {
			op.Mode = "unsafe"
		}
	case 2, 3:
		p := sameSizeDt(t)
		if boolResult {
			p = and(isDt("bool"), func(x *tensor.Dense) bool { return x.Shape().TotalSize() == t.Shape().TotalSize() })
		}
		if r := g.pickWritable(p); r >= 0 {
			op.Mode, op.R = "reuse", r
		}
	case 4:
		if boolResult {
			break
		}
		if r := g.pickWritable(sameSizeDt(t)); r >= 0 {
			op.Mode, op.R = "incr", r
		}
	}
}

func (g *Gen) perm(n int) []int {
	p := make([]int, n)
	for i := range p {
		p[i] = i
	}
	for i := n - 1; i > 0; i-- {
		j := g.r.Intn(i + 1)
		p[i], p[j] = p[j], p[i]
	}
	return p
}

func (g *Gen) coords(t *tensor.Dense) []int {
	c := make([]int, t.Dims())
	for i := range c {
		c[i] = g.r.Intn(t.Shape()[i])
	}
	switch g.r.Intn(12) {
	case 0:
		if len(c) > 0 {
			c[g.r.Intn(len(c))] += 7
		}
	case 1:
		c = append(c, 0)
	case 2:
		if len(c) > 0 {
			c[g.r.Intn(len(c))] = -1
		}
	}
	return c
}

func (g *Gen) sliceEnc(t *tensor.Dense) []int {
	d := t.Dims()
	n := d
	if d > 0 && g.r.Intn(4) == 0 {
		n = 1 + g.r.Intn(d)
	}
	if g.r.Intn(25) == 0 {
		n = d + 1
	}
	enc := make([]int, 0, 4*n)
	for k := 0; k < n; k++ {
		dim := 1
		if k < d {
			dim = t.Shape()[k]
		}
		switch g.r.Intn(6) {
		case 0:
			enc = append(enc, 0, 0, 0, 0)
		case 1:
			enc = append(enc, 2, g.r.Intn(dim), 0, 0)
		default:
			s := g.r.Intn(dim)
			e := s + 1 + g.r.Intn(dim-s)
			st := 1
			if g.r.Intn(3) == 0 {
				st = 1 + g.r.Intn(3)
			}
			if g.r.Intn(20) == 0 {
				e = dim + 2
			}
			if g.r.Intn(30) == 0 {
				s, e = e, s
			}
			enc = append(enc, 1, s, e, st)
		}
	}
	return enc
}

// Next returns the next operation of the program.
func (g *Gen) Next() Op {
	if len(g.queue) > 0 {
		op := g.queue[0]
		g.queue = g.queue[1:]
		return op
	}
	live := g.live()
	minLive := 2
	if g.c18 {
		minLive = g.w.nshared + 1
	}
	if live < minLive {
		return g.opNew(g.pickDt(), g.pickShape(4))
	}
	if live > g.maxLive {
		if op, ok := g.genLifecycle(true); ok {
			return op
		}
	}
	for tries := 0; tries < 50; tries++ {
		fam := families[g.r.Intn(len(families))]
		op, ok := g.tryFamily(fam)
		if ok {
			op.Fam = fam
			if g.c18 && (op.Mode == "unsafe" || op.Mode == "same-unsafe") {
				// an unsafe operation works in one of its operands - with a scalar first operand in the
				// second one: none of them may be (a view of) a shared tensor
				for _, s := range op.In {
					if g.tainted(s) {
						op.Mode = ""
					}
				}
			}
			return op
		}
	}
	return g.opNew(g.pickDt(), g.pickShape(3))
}

// tryFamily: a family that finds no suitable operand (all live tensors too large, wrong rank ...)
// simply does not produce an operation.
func (g *Gen) tryFamily(fam string) (op Op, ok bool) {
	nslots := len(g.w.slots)
	defer func() {
		if r := recover(); r != nil {
			g.w.slots = g.w.slots[:nslots]
			g.queue = nil
			op, ok = Op{}, false
		}
	}()
	return g.genFamily(fam)
}

func (g *Gen) genFamily(fam string) (Op, bool) {
	if g.big && (fam == "product" || fam == "assemble") {
		// families whose results multiply the sizes of their operands take small operands only: a Repeat of a
		// Concat of an outer product of large tensors needs gigabytes
		g.big = false
		defer func() { g.big = true }()
	}
	r := g.r
	w := g.w
	switch fam {
	case "kernelprobe":
		// Every operation exists once per element type and per variant (plain, Iter, Incr, Recv, scalar forms). A short
		// scripted sequence puts one of them - any element type with equal weight - in front of operands whose
		// iterators yield different offsets: a view that does not fill its window against a contiguous tensor of the
		// same shape, in a random role (destination of an unsafe operation, reuse, incr, plain operand).
		dt := numericDts[r.Intn(len(numericDts))]
		rows, cols := 2+r.Intn(3), 3+r.Intn(2)
		parent := g.opNew(dt, []int{rows, cols})
		parent.Mode, parent.N = []string{"row", "col"}[r.Intn(2)], 0
		parent.F = float64(r.Intn(900))
		c0 := r.Intn(cols - 1)
		view := Op{Name: "Slice", In: []int{parent.Out}, I: []int{0, 0, 0, 0, 1, c0, c0 + 2, 1}, Out: g.newSlot(), Fam: "kernelprobe"}
		if r.Intn(3) == 0 {
			view.I = []int{1, 0, rows, 2, 0, 0, 0, 0} // every second row
		}
		vshape := []int{rows, 2}
		if view.I[0] == 1 {
			vshape = []int{(rows + 1) / 2, cols}
		}
		other := g.opNew(dt, vshape)
		other.Mode, other.N = "row", 0
		other.F = float64(r.Intn(900))
		third := g.opNew(dt, vshape)
		third.Mode, third.N = "row", 0
		names := arithNames
		cmp := r.Intn(3) == 0
		if cmp {
			names = cmpNames
		}
		op := Op{Name: names[r.Intn(len(names))], Out: g.newSlot(), F: float64(1 + r.Intn(3)), Fam: "kernelprobe"}
		a, b := view.Out, other.Out
		if r.Intn(2) == 0 {
			a, b = b, a
		}
		switch r.Intn(4) {
		case 0:
			op.Form, op.In = "vs", []int{a}
		case 1:
			op.Form, op.In = "sv", []int{a}
		default:
			op.Form, op.In = "vv", []int{a, b}
		}
		switch r.Intn(5) {
		case 0:
			op.Mode = "unsafe"
		case 1:
			op.Mode, op.R = "reuse", []int{view.Out, third.Out}[r.Intn(2)]
		case 2:
			if !cmp {
				op.Mode, op.R = "incr", []int{view.Out, third.Out}[r.Intn(2)]
			}
		}
		if cmp {
			switch op.Mode {
			case "unsafe":
				op.Mode = "same-unsafe"
			case "reuse":
				op.Mode = "same-reuse"
			case "":
				if r.Intn(2) == 0 {
					op.Mode = "same"
				}
			}
		}
		g.queue = append(g.queue, view, other, third, op)
		return parent, true

	case "construct":
		switch r.Intn(12) {
		case 0:
			return Op{Name: "Ones", S: g.pickDt(), I: g.pickShape(3), Out: g.newSlot()}, true
		case 1:
			return Op{Name: "I", S: []string{"float64", "int", "float32"}[r.Intn(3)], I: []int{1 + r.Intn(4), 1 + r.Intn(4), r.Intn(3) - 1}, Out: g.newSlot()}, true
		case 2:
			return Op{Name: "NewOpt", N: r.Intn(4), Out: g.newSlot()}, true
		case 3:
			if r.Intn(2) == 0 {
				return Op{Name: "DenseDiag", S: []string{"float64", "int", "float32"}[r.Intn(3)], N: 1 + r.Intn(4), F: float64(r.Intn(900)), Out: g.newSlot()}, true
			}
			// a sparse matrix from coordinate lists, made dense
			rows, cols := 1+r.Intn(4), 1+r.Intn(4)
			n := 1 + r.Intn(5)
			I := []int{rows, cols, n}
			for i := 0; i < n; i++ {
				I = append(I, r.Intn(rows))
			}
			for i := 0; i < n; i++ {
				I = append(I, r.Intn(cols))
			}
			return Op{Name: "CSRDense", S: []string{"float64", "int", "float32"}[r.Intn(3)], I: I, N: r.Intn(2), F: float64(r.Intn(900)), Out: g.newSlot()}, true
		}
		return g.opNew(g.pickDt(), g.pickShape(4)), true

	case "access":
		if g.c18 && len(w.sparse) > 0 && r.Intn(2) == 0 {
			return Op{Name: "SparseRead", I: []int{r.Intn(4), r.Intn(5)}, Out: g.newSlot()}, true
		}
		if !g.c18 && !g.big && r.Intn(5) == 0 {
			// sparse matrices that live on: built with a caller's shape list, transposed, read (C19)
			if len(w.sparse) == 0 || (len(w.sparse) < 3 && r.Intn(3) == 0) {
				rows, cols := 1+r.Intn(4), 1+r.Intn(4)
				I := []int{rows, cols}
				for m := 0; m < 4; m++ {
					I = append(I, r.Intn(16))
				}
				// what follows a construction: a read, perhaps a second matrix, a transposition, reads of both
				g.queue = append(g.queue, Op{Name: "SparseRead", I: []int{r.Intn(4), r.Intn(5)}, Out: g.newSlot()})
				if r.Intn(2) == 0 {
					I2 := []int{1 + r.Intn(4), 1 + r.Intn(4), r.Intn(16), r.Intn(16), r.Intn(16), r.Intn(16)}
					if r.Intn(2) == 0 {
						I2[0], I2[1] = rows, cols
					}
					g.queue = append(g.queue, Op{Name: "NewCS", S: []string{"float64", "int", "float32"}[r.Intn(3)], I: I2, N: r.Intn(2), F: float64(r.Intn(900)), Out: -1})
				}
				g.queue = append(g.queue, Op{Name: "SparseT", I: []int{r.Intn(4), r.Intn(2)}, Out: -1},
					Op{Name: "SparseRead", I: []int{0, r.Intn(5)}, Out: g.newSlot()}, Op{Name: "SparseRead", I: []int{1, r.Intn(5)}, Out: g.newSlot()})
				return Op{Name: "NewCS", S: []string{"float64", "int", "float32"}[r.Intn(3)], I: I, N: r.Intn(2), F: float64(r.Intn(900)), Out: -1}, true
			}
			if r.Intn(3) == 0 {
				return Op{Name: "SparseT", I: []int{r.Intn(4), r.Intn(2)}, Out: -1}, true
			}
			return Op{Name: "SparseRead", I: []int{r.Intn(4), r.Intn(5)}, Out: g.newSlot()}, true
		}
		a := g.pick(nil)
		t := w.get(a)
		switch r.Intn(6) {
		case 0, 1:
			return Op{Name: "At", In: []int{a}, I: g.coords(t), Out: -1}, true
		case 2, 3:
			a = g.pickWritable(nil)
			if a < 0 {
				return Op{}, false
			}
			return Op{Name: "SetAt", In: []int{a}, I: g.coords(w.get(a)), F: float64(r.Intn(9)), Out: -1}, true
		case 4:
			return Op{Name: "ScalarValue", In: []int{a}, Out: -1}, true
		default:
			return Op{Name: "Data", In: []int{a}, Out: -1}, true
		}

	case "slice":
		a := g.pick(func(t *tensor.Dense) bool { return t.Dims() > 0 })
		if a < 0 {
			return Op{}, false
		}
		if r.Intn(4) == 0 {
			// cuts of lazily transposed tensors: the axis that is outermost by the layout flag is not outermost in memory
			if x := g.pick(func(t *tensor.Dense) bool { return t.Dims() > 1 && tensor.VerifInternals(t).HasOld }); x >= 0 {
				a = x
			}
		}
		t := w.get(a)
		if r.Intn(5) == 0 {
			dim := r.Intn(t.Dims())
			st := r.Intn(t.Shape()[dim])
			ln := 1 + r.Intn(t.Shape()[dim]-st)
			if r.Intn(15) == 0 {
				ln += 5
			}
			return Op{Name: "Narrow", In: []int{a}, I: []int{dim, st, ln}, Out: g.newSlot()}, true
		}
		switch r.Intn(10) {
		case 0:
			if d := g.pickWritable(func(x *tensor.Dense) bool { return !x.IsView() && x != t }); d >= 0 && d != a {
				return Op{Name: "SliceInto", In: []int{a}, R: d, I: g.sliceEnc(t), Out: g.newSlot()}, true
			}
		case 1:
			ax := r.Intn(t.Dims())
			reps := []int{1 + r.Intn(3)}
			return Op{Name: "ShapeCalc", In: []int{a}, I: g.sliceEnc(t), J: append(reps, g.perm(t.Dims())...)[:1], N: ax, Out: -1}, true
		}
		return Op{Name: "Slice", In: []int{a}, I: g.sliceEnc(t), Out: g.newSlot()}, true

	case "transpose":
		k := r.Intn(12)
		var a int
		if k < 6 {
			a = g.pickWritable(nil)
		} else {
			a = g.pick(nil)
		}
		if a < 0 {
			return Op{}, false
		}
		t := w.get(a)
		var axes []int
		if r.Intn(3) > 0 {
			axes = g.perm(t.Dims())
			switch r.Intn(30) {
			case 0:
				axes = append(axes, len(axes)) // wrong arity
			case 1:
				if len(axes) > 1 {
					axes = axes[1:] // wrong arity
				}
			}
		}
		switch k {
		case 0, 1, 2:
			return Op{Name: "T", In: []int{a}, I: axes, Out: -1}, true
		case 3, 4:
			return Op{Name: "UT", In: []int{a}, Out: -1}, true
		case 5:
			return Op{Name: "Transpose", In: []int{a}, Out: -1}, true
		case 6, 7:
			return Op{Name: "SafeT", In: []int{a}, I: axes, Out: g.newSlot()}, true
		case 8:
			if t.Dims() == 0 {
				return Op{}, false
			}
			op := Op{Name: "RollAxis", In: []int{a}, I: []int{r.Intn(t.Dims()), r.Intn(t.Dims())}, Out: g.newSlot()}
			if r.Intn(2) == 0 && !g.tainted(a) {
				op.Mode = "unsafe"
			}
			return op, true
		case 9, 10:
			return Op{Name: "PkgT", In: []int{a}, I: axes, Out: g.newSlot()}, true
		default:
			return Op{Name: "PkgTranspose", In: []int{a}, I: axes, Out: g.newSlot()}, true
		}

	case "copy":
		a := g.pick(nil)
		t := w.get(a)
		switch r.Intn(11) {
		case 0, 1:
			return Op{Name: "Clone", In: []int{a}, Out: g.newSlot()}, true
		case 2:
			return Op{Name: "ShallowClone", In: []int{a}, Out: g.newSlot()}, true
		case 3, 4:
			return Op{Name: "Materialize", In: []int{a}, Out: g.newSlot()}, true
		case 5, 6:
			p := sameShapeDt(t)
			if r.Intn(6) == 0 {
				p = func(x *tensor.Dense) bool { return x.Dtype() == t.Dtype() }
			}
			d := g.pickWritable(p)
			if d < 0 {
				return Op{}, false
			}
			name := "Copy"
			if r.Intn(2) == 0 {
				name = "CopyTo"
			}
			return Op{Name: name, In: []int{a}, R: d, Out: -1}, true
		case 7:
			a = g.pickWritable(nil)
			if a < 0 {
				return Op{}, false
			}
			return Op{Name: "Memset", In: []int{a}, F: float64(r.Intn(7)), Out: -1}, true
		case 8:
			a = g.pickWritable(nil)
			if a < 0 {
				return Op{}, false
			}
			return Op{Name: "Zero", In: []int{a}, Out: -1}, true
		default:
			b := g.pick(nil)
			return Op{Name: "Eq", In: []int{a, b}, Out: -1}, true
		}

	case "iter":
		a := g.pick(nil)
		t := w.get(a)
		switch r.Intn(8) {
		case 0, 1:
			op := Op{Name: "IterWalk", In: []int{a}, Out: -1}
			if r.Intn(3) == 0 {
				op.Mode = "reverse"
			}
			return op, true
		case 2:
			return Op{Name: "IterValid", In: []int{a}, Out: -1}, true
		case 3, 4, 5:
			ins := []int{a}
			n := 1 + r.Intn(2)
			for i := 0; i < n; i++ {
				b := g.pick(func(x *tensor.Dense) bool { return x.Shape().Eq(t.Shape()) })
				ins = append(ins, b)
			}
			op := Op{Name: "MultIter", In: ins, N: -1, Out: -1, Mode: []string{"keep", "drop", "drop"}[r.Intn(3)]}
			if r.Intn(3) == 0 {
				op.N = r.Intn(5)
			}
			return op, true
		case 6:
			return Op{Name: "DropIters", Out: -1}, true
		default:
			return Op{Name: "FireFinalizers", N: r.Intn(1 << 20), Out: -1}, true
		}

	case "arith", "cmp":
		names := arithNames
		p := isDt(numericDts...)
		if fam == "cmp" {
			names = cmpNames
			p = nil
		}
		a := g.pick(p)
		if a < 0 || r.Intn(12) == 0 {
			a = g.pick(nil)
		}
		t := w.get(a)
		op := Op{Name: names[r.Intn(len(names))], In: []int{a}, Out: g.newSlot(), F: float64(r.Intn(7) - 1)}
		switch r.Intn(4) {
		case 0:
			op.Form = "vs"
		case 1:
			op.Form = "sv"
		default:
			op.Form = "vv"
			b := g.pick(sameShapeDt(t))
			if b < 0 || r.Intn(15) == 0 {
				b = g.pick(nil)
			}
			op.In = append(op.In, b)
		}
		if fam == "arith" {
			g.mode(&op, a, false)
		} else {
			switch r.Intn(6) {
			case 0:
				op.Mode = "same"
			case 1:
				if !g.tainted(a) {
					op.Mode = "same-unsafe"
				}
			case 2:
				if rr := g.pickWritable(sameSizeDt(t)); rr >= 0 {
					op.Mode, op.R = "same-reuse", rr
				}
			case 3:
				g.mode(&op, a, true)
				if op.Mode == "unsafe" {
					op.Mode = "same-unsafe"
				}
			}
		}
		return op, true

	case "unary":
		if !g.c18 && r.Intn(12) == 0 {
			// softmax family (its kernels start goroutines of their own, which the scheduler of the concurrency check
			// does not own: sequential worlds only)
			if a := g.pick(and(isDt(floatDts...), func(t *tensor.Dense) bool { return t.Dims() > 0 })); a >= 0 {
				t := w.get(a)
				op := Op{Name: []string{"SoftMax", "LogSoftMax", "SoftMax", "SoftMaxB", "LogSoftMaxB"}[r.Intn(5)], In: []int{a}, N: r.Intn(t.Dims()+1) - 1, Out: g.newSlot()}
				if strings.HasSuffix(op.Name, "B") {
					b := g.pick(sameShapeDt(t))
					if b < 0 {
						b = a
					}
					op.In = append(op.In, b)
				}
				if r.Intn(3) == 0 {
					if rr := g.pickWritable(sameShapeDt(t)); rr >= 0 && rr != a {
						op.Mode, op.R = "reuse", rr
					}
				}
				return op, true
			}
		}
		a := g.pick(isDt(numericDts...))
		if a < 0 || r.Intn(12) == 0 {
			a = g.pick(nil)
		}
		op := Op{In: []int{a}, Out: g.newSlot()}
		switch k := r.Intn(18); {
		case k == 0:
			op.Name, op.F = "Clamp", float64(r.Intn(4)-1)
		case k == 1 || k == 2:
			op.Name = "Apply"
		default:
			op.Name = unNames[r.Intn(len(unNames))]
		}
		g.mode(&op, a, false)
		return op, true

	case "reduce":
		a := g.pick(and(isDt(numericDts...), smallInts, func(t *tensor.Dense) bool { return t.Dims() > 0 }))
		if a < 0 {
			a = g.pick(smallInts)
		}
		if a < 0 {
			return Op{}, false
		}
		t := w.get(a)
		d := t.Dims()
		var axes []int
		if d > 0 && r.Intn(4) > 0 {
			pm := g.perm(d)
			axes = pm[:1+r.Intn(d)]
			if r.Intn(2) == 0 {
				// ascending order is the common call
				for i := 1; i < len(axes); i++ {
					for j := i; j > 0 && axes[j] < axes[j-1]; j-- {
						axes[j], axes[j-1] = axes[j-1], axes[j]
					}
				}
			}
			if r.Intn(20) == 0 {
				axes[0] = d + 1
			}
		}
		if r.Intn(6) == 0 {
			// norms whose intermediate values stay small integers (squares, absolute values, counts)
			na := g.pick(and(isDt(floatDts...), smallInts, func(t *tensor.Dense) bool { return t.Dims() > 0 }))
			if na >= 0 {
				nt := w.get(na)
				var nax []int
				switch r.Intn(3) {
				case 1:
					nax = []int{r.Intn(nt.Dims())}
				case 2:
					if nt.Dims() >= 2 {
						pm := g.perm(nt.Dims())
						nax = pm[:2]
					}
				}
				return Op{Name: "Norm", In: []int{na}, N: r.Intn(7), I: nax, Out: g.newSlot()}, true
			}
		}
		switch r.Intn(8) {
		case 0, 1:
			return Op{Name: "Sum", In: []int{a}, I: axes, Out: g.newSlot()}, true
		case 2:
			return Op{Name: "Max", In: []int{a}, I: axes, Out: g.newSlot()}, true
		case 3:
			return Op{Name: "Min", In: []int{a}, I: axes, Out: g.newSlot()}, true
		case 4:
			return Op{Name: "PkgSum", In: []int{a}, I: axes, Out: g.newSlot()}, true
		case 5:
			ax := -1
			if d > 0 && r.Intn(4) > 0 {
				ax = r.Intn(d)
			}
			return Op{Name: "Argmax", In: []int{a}, N: ax, Out: g.newSlot()}, true
		case 6:
			ax := -1
			if d > 0 && r.Intn(4) > 0 {
				ax = r.Intn(d)
			}
			return Op{Name: "Argmin", In: []int{a}, N: ax, Out: g.newSlot()}, true
		default:
			ax := 0
			if d > 0 {
				ax = r.Intn(d)
			}
			return Op{Name: "Reduce", In: []int{a}, N: ax, Out: g.newSlot()}, true
		}

	case "product":
		return g.genProduct()

	case "assemble":
		a := g.pick(func(t *tensor.Dense) bool { return t.Dims() > 0 })
		if a < 0 {
			return Op{}, false
		}
		t := w.get(a)
		d := t.Dims()
		if r.Intn(8) == 0 {
			ax := r.Intn(d)
			n := 1 + r.Intn(4)
			idx := make([]int, n)
			for i := range idx {
				idx[i] = r.Intn(t.Shape()[ax])
			}
			if r.Intn(20) == 0 {
				idx[0] = t.Shape()[ax] + 1
			}
			if r.Intn(3) == 0 {
				// the backward pass: gradient tensor of the selected shape
				sel := Op{Name: "ByIndices", In: []int{a}, I: idx, N: ax, Out: g.newSlot()}
				back := Op{Name: "ByIndicesB", In: []int{a, sel.Out}, I: cloneInts(idx), N: ax, Out: g.newSlot()}
				if r.Intn(2) == 0 {
					// the gradient accumulates into a tensor of the input's shape: a fresh one, or one the caller names
					if rr := g.pickWritable(sameSizeDt(t)); rr >= 0 && rr != a {
						back.Mode, back.R = "reuse", rr
					}
				}
				g.queue = append(g.queue, back)
				return sel, true
			}
			sel := Op{Name: "ByIndices", In: []int{a}, I: idx, N: ax, Out: g.newSlot()}
			if r.Intn(4) == 0 {
				if rr := g.pickWritable(func(x *tensor.Dense) bool { return x.Dtype() == t.Dtype() && x != t }); rr >= 0 {
					sel.Mode, sel.R = "reuse", rr
				}
			}
			return sel, true
		}
		switch r.Intn(9) {
		case 0, 1, 2, 3:
			ins := []int{a}
			n := 1 + r.Intn(3)
			for i := 0; i < n; i++ {
				b := g.pick(sameShapeDt(t))
				if r.Intn(20) == 0 {
					// a shape that may not fit; never another element type (the result would contain
					// reinterpreted pointer bits, which no two runs agree on)
					b = g.pick(func(x *tensor.Dense) bool { return x.Dtype() == t.Dtype() })
				}
				ins = append(ins, b)
			}
			name := []string{"Concat", "PkgConcat", "Stack", "Hstack", "Vstack"}[r.Intn(5)]
			ax := r.Intn(d)
			if name == "Stack" {
				ax = r.Intn(d + 1)
			}
			if r.Intn(25) == 0 {
				ax = d + 2
			}
			return Op{Name: name, In: ins, N: ax, Out: g.newSlot()}, true
		default:
			ax := r.Intn(d)
			var reps []int
			if r.Intn(2) == 0 {
				// (a zero count gives a tensor with a zero-length axis; iterating one never terminates in
				// this library and slicing one reaches memory outside any allocation: the workloads do not create them)
				reps = []int{1 + r.Intn(3)}
			} else {
				reps = make([]int, t.Shape()[ax])
				for i := range reps {
					reps[i] = r.Intn(3)
				}
				reps[r.Intn(len(reps))] = 1 + r.Intn(2)
				if r.Intn(15) == 0 {
					reps = append(reps, 1)
				}
			}
			name := "Repeat"
			if r.Intn(3) == 0 {
				name = "PkgRepeat"
			}
			if r.Intn(4) == 0 {
				total := 0
				if len(reps) == 1 {
					total = reps[0] * t.Shape()[ax]
				} else {
					for _, x := range reps {
						total += x
					}
				}
				elems := t.Shape().TotalSize() / t.Shape()[ax] * total
				if rr := g.pickWritable(func(x *tensor.Dense) bool { return x.Dtype() == t.Dtype() && x.Shape().TotalSize() == elems }); rr >= 0 {
					return Op{Name: "RepeatReuse", In: []int{a}, R: rr, N: ax, I: reps, Out: g.newSlot()}, true
				}
			}
			return Op{Name: name, In: []int{a}, N: ax, I: reps, Out: g.newSlot()}, true
		}

	case "reshape":
		a := g.pickWritable(nil)
		if a < 0 {
			return Op{}, false
		}
		t := w.get(a)
		n := t.Shape().TotalSize()
		var sh []int
		switch r.Intn(5) {
		case 0:
			sh = []int{n}
		case 1:
			sh = []int{1, n}
		case 2:
			sh = []int{n, 1}
		case 3:
			sh = []int{n + 1}
		default:
			sh = []int{}
			rem := n
			for _, f := range []int{2, 3, 2, 5, 7} {
				if rem%f == 0 && rem > 1 {
					sh = append(sh, f)
					rem /= f
				}
			}
			sh = append(sh, rem)
		}
		return Op{Name: "Reshape", In: []int{a}, I: sh, Out: -1}, true

	case "serialise":
		a := g.pick(nil)
		t := w.get(a)
		// (pb and fb write string elements as raw string headers - addresses; a decoded string tensor dangles
		// as soon as the source's strings are collected, and reading it crashes: not for string tensors)
		isStr := t.Dtype() == tensor.String
		if r.Intn(5) == 0 {
			if d := g.pickWritable(nil); d >= 0 && w.get(d) != t {
				f := []string{"gob", "pb", "fb", "npy"}[r.Intn(4)]
				if isStr && (f == "pb" || f == "fb") {
					f = "gob"
				}
				return Op{Name: "DecodeInto", In: []int{a}, R: d, S: f, Out: -1}, true
			}
		}
		name := []string{"Gob", "Npy", "CSV", "PB", "FB", "Format", "Format"}[r.Intn(7)]
		if isStr && (name == "PB" || name == "FB") {
			name = "Gob"
		}
		op := Op{Name: name, In: []int{a}, Out: g.newSlot()}
		if name == "Format" {
			op.Out = -1
			op.S = []string{"%v", "%+v", "%#v", "%.3f", "%s", "%-v"}[r.Intn(6)]
		}
		if name == "CSV" && t.Dims() > 2 && r.Intn(4) > 0 {
			return Op{}, false
		}
		return op, true

	case "mask":
		k := r.Intn(14)
		var a int
		if k < 7 {
			a = g.pickWritable(nil)
		} else {
			a = g.pick(nil)
		}
		if a < 0 {
			return Op{}, false
		}
		t := w.get(a)
		switch k {
		case 0, 1, 2, 3:
			return Op{Name: maskPreds[r.Intn(len(maskPreds))], In: []int{a}, F: float64(r.Intn(6) - 1), Out: -1}, true
		case 4:
			return Op{Name: "ResetMask", In: []int{a}, N: r.Intn(2), Out: -1}, true
		case 5:
			switch r.Intn(4) {
			case 0:
				// (a raw index into the mask window, like Set(i, x) into the data: not for views with gaps)
				if !gappyView(t) {
					return Op{Name: "SetMaskAtIndex", In: []int{a}, N: r.Intn(t.Shape().TotalSize() + 1), F: float64(r.Intn(2)), Out: -1}, true
				}
			case 1:
				n := t.Shape().TotalSize()
				if n > 64 {
					n = 64
				}
				flags := make([]int, n)
				for i := range flags {
					flags[i] = r.Intn(2)
				}
				return Op{Name: "MaskFromSlice", In: []int{a}, I: flags, Out: -1}, true
			}
			return Op{Name: []string{"HardenMask", "SoftenMask"}[r.Intn(2)], In: []int{a}, Out: -1}, true
		case 6:
			if r.Intn(2) == 0 {
				return Op{Name: "FilledInplace", In: []int{a}, F: float64(r.Intn(5)), Out: -1}, true
			}
			return Op{Name: "SetMaskAt", In: []int{a}, I: g.coords(t), N: r.Intn(2), Out: -1}, true
		case 7, 8, 9:
			ax := -1
			if t.Dims() > 0 && r.Intn(2) == 0 {
				ax = r.Intn(t.Dims())
			}
			return Op{Name: "MaskInspect", In: []int{a}, N: ax, Out: -1}, true
		case 10, 11:
			return Op{Name: "MaskRuns", In: []int{a}, Out: -1}, true
		case 12:
			if r.Intn(2) == 0 {
				d := g.pickWritable(nil)
				if d >= 0 {
					td := w.get(d)
					ins := []int{d}
					for i := 0; i < 1+r.Intn(2); i++ {
						ins = append(ins, g.pick(func(x *tensor.Dense) bool { return x.Shape().TotalSize() == td.Shape().TotalSize() }))
					}
					return Op{Name: "MaskFromDense", In: ins, Out: -1}, true
				}
			}
			return Op{Name: "Filled", In: []int{a}, F: float64(r.Intn(5)), Out: g.newSlot()}, true
		default:
			return Op{Name: "MaskAt", In: []int{a}, I: g.coords(t), Out: -1}, true
		}

	case "convert":
		switch r.Intn(9) {
		case 0:
			a := g.pick(and(isDt("float64"), dimsIs(2)))
			if a >= 0 {
				op := Op{Name: "FromMat64", In: []int{a}, Out: g.newSlot()}
				switch r.Intn(3) {
				case 0:
					if !g.tainted(a) {
						op.Mode = "unsafe"
					}
				case 1:
					op.Mode = "mixed"
				}
				return op, true
			}
		case 99: // native.Select* is not generated any more: it reads outside its operand for several layouts and ranks
			// (on a strided view native.Select* reads past the view - another process history, another result;
			// that is a defect of the conversion (C04), not a corruption: plain tensors only)
			a := g.pick(and(isDt("float64", "float32", "int"), func(t *tensor.Dense) bool {
				return t.Dims() >= 2 && !t.IsView() && !t.IsMaterializable() && !t.RequiresIterator()
			}))
			if a >= 0 {
				return Op{Name: "NativeSelect", In: []int{a}, N: r.Intn(w.get(a).Dims()), Out: -1}, true
			}
		case 2:
			a := g.pick(dimsIs(2))
			if a >= 0 {
				return Op{Name: "Diag", In: []int{a}, Out: g.newSlot()}, true
			}
		}
		if r.Intn(3) == 0 {
			a := g.pick(and(isDt("float64"), dimsIs(2)))
			if a < 0 {
				a = g.pick(nil)
			}
			op := Op{Name: "ToMat64", In: []int{a}, Out: -1}
			if r.Intn(4) == 0 && !g.tainted(a) {
				op.Mode = "unsafe"
			}
			return op, true
		}
		a := g.pick(func(t *tensor.Dense) bool { return t.Dims() >= 1 && t.Dims() <= 3 })
		if a < 0 {
			return Op{}, false
		}
		n := w.get(a).Dims()
		if r.Intn(10) == 0 {
			n = 1 + r.Intn(3)
		}
		return Op{Name: "Native", In: []int{a}, N: n, Out: -1}, true

	case "lifecycle":
		return g.genLifecycle(false)
	}
	return Op{}, false
}

func (g *Gen) genLifecycle(force bool) (Op, bool) {
	r := g.r
	w := g.w
	k := r.Intn(12)
	if force {
		k = r.Intn(6)
	}
	switch {
	case k < 3:
		a := -1
		var cand []int
		for i, t := range w.slots {
			if t != nil && !g.tainted(i) {
				cand = append(cand, i)
				if t.Shape().TotalSize() > g.maxOp() {
					a = i // big results are dropped first
				}
			}
		}
		if a < 0 && len(cand) > 0 {
			a = cand[r.Intn(len(cand))]
		}
		if g.c18 {
			a = g.pick(func(t *tensor.Dense) bool { return true })
			if a < w.nshared {
				return Op{}, false
			}
		}
		if a < 0 {
			return Op{}, false
		}
		return Op{Name: "Drop", In: []int{a}, Out: -1}, true
	case k < 6:
		// ReturnTensor only for tensors to which the program holds the sole handle: no view of it,
		// no shallow clone of it, and not itself a view, is alive.
		roots := w.roots()
		var cand []int
		for i, t := range w.slots {
			if t == nil || g.tainted(i) {
				continue
			}
			sole := true
			for j, u := range w.slots {
				if j != i && u != nil && (roots[j] == roots[i] || u == t) {
					sole = false
				}
			}
			if (sole && !t.IsView()) || g.loose {
				cand = append(cand, i)
			}
		}
		if len(cand) == 0 {
			return Op{}, false
		}
		return Op{Name: "ReturnTensor", In: []int{cand[r.Intn(len(cand))]}, Out: -1}, true
	case k < 8:
		if g.c18 {
			return Op{}, false
		}
		return Op{Name: []string{"UsePool", "DontUsePool", "UsePool"}[r.Intn(3)], Out: -1}, true
	case k < 10:
		if g.noFault || w.eng == nil {
			return Op{}, false
		}
		return Op{Name: "ArmFault", N: 1 + r.Intn(3), Out: -1}, true
	default:
		return Op{Name: "FireFinalizers", N: r.Intn(1 << 20), Out: -1}, true
	}
}

func (g *Gen) genProduct() (Op, bool) {
	r := g.r
	w := g.w
	pickB := func(p pred) int { return g.pick(and(p, smallInts)) }
	fl := and(isDt(floatCplxDts...), smallInts)
	if r.Intn(10) == 0 {
		fl = and(isDt(numericDts...), smallInts)
	}
	withMode := func(op Op, outElems int) Op {
		t := w.get(op.In[0])
		switch r.Intn(6) {
		case 0, 1:
			rr := g.pickWritable(func(x *tensor.Dense) bool {
				return x.Dtype() == t.Dtype() && (x.Shape().TotalSize() == outElems || (x.IsView() && x.DataSize() == outElems))
			})
			if rr >= 0 {
				op.Mode, op.R = "reuse", rr
			}
		case 2:
			rr := g.pickWritable(func(x *tensor.Dense) bool {
				return x.Dtype() == t.Dtype() && x.Shape().TotalSize() == outElems && smallInts(x)
			})
			if rr >= 0 {
				op.Mode, op.R = "incr", rr
			}
		case 3:
			// a reuse tensor for the product and an incr tensor it is added to
			rr := g.pickWritable(func(x *tensor.Dense) bool { return x.Dtype() == t.Dtype() && x.Shape().TotalSize() == outElems })
			ii := g.pickWritable(func(x *tensor.Dense) bool {
				return x.Dtype() == t.Dtype() && x.Shape().TotalSize() == outElems && smallInts(x)
			})
			if rr >= 0 && ii >= 0 {
				op.Mode, op.R, op.R2 = "reuse-incr", rr, ii
			}
		}
		return op
	}
	switch r.Intn(10) {
	case 0: // Inner
		a := g.pick(and(fl, func(t *tensor.Dense) bool { return t.Shape().IsVector() || t.Dims() == 1 }))
		if a < 0 {
			g.queue = append(g.queue, g.opNew("float64", []int{1 + r.Intn(4)}))
			return g.Next(), true
		}
		t := w.get(a)
		b := pickB(func(x *tensor.Dense) bool {
			return x.Dtype() == t.Dtype() && x.Shape().TotalSize() == t.Shape().TotalSize() && x.Dims() <= 2
		})
		name := "Inner"
		if r.Intn(2) == 0 {
			name = "PkgInner"
		}
		return Op{Name: name, In: []int{a, b}, Out: -1}, true
	case 1, 2: // MatVecMul
		a := g.pick(and(fl, dimsIs(2)))
		if a < 0 {
			g.queue = append(g.queue, g.opNew("float64", []int{1 + r.Intn(4), 1 + r.Intn(4)}))
			return g.Next(), true
		}
		t := w.get(a)
		b := pickB(func(x *tensor.Dense) bool {
			return x.Dtype() == t.Dtype() && x.Shape().IsVector() && x.Shape().TotalSize() == t.Shape()[1]
		})
		if b < 0 {
			g.queue = append(g.queue, g.opNew(dtName(t), []int{t.Shape()[1]}))
			return g.Next(), true
		}
		return withMode(Op{Name: "MatVecMul", In: []int{a, b}, Out: g.newSlot()}, t.Shape()[0]), true
	case 3, 4: // MatMul
		a := g.pick(and(fl, dimsIs(2)))
		if a < 0 {
			g.queue = append(g.queue, g.opNew("float64", []int{1 + r.Intn(4), 1 + r.Intn(4)}))
			return g.Next(), true
		}
		t := w.get(a)
		b := pickB(func(x *tensor.Dense) bool {
			return x.Dtype() == t.Dtype() && x.Dims() == 2 && x.Shape()[0] == t.Shape()[1]
		})
		if b < 0 {
			g.queue = append(g.queue, g.opNew(dtName(t), []int{t.Shape()[1], 1 + r.Intn(4)}))
			return g.Next(), true
		}
		return withMode(Op{Name: "MatMul", In: []int{a, b}, Out: g.newSlot()}, t.Shape()[0]*w.get(b).Shape()[1]), true
	case 5: // Outer
		a := g.pick(and(fl, func(t *tensor.Dense) bool { return t.Dims() >= 1 && t.Dims() <= 2 && t.Shape().TotalSize() <= 24 }))
		if a < 0 {
			return Op{}, false
		}
		t := w.get(a)
		b := pickB(func(x *tensor.Dense) bool {
			return x.Dtype() == t.Dtype() && x.Dims() >= 1 && x.Dims() <= 2 && x.Shape().TotalSize() <= 24
		})
		return withMode(Op{Name: "Outer", In: []int{a, b}, Out: g.newSlot()}, t.Shape().TotalSize()*w.get(b).Shape().TotalSize()), true
	case 6, 7: // Dot
		a := g.pick(fl)
		if a < 0 {
			return Op{}, false
		}
		t := w.get(a)
		b := pickB(func(x *tensor.Dense) bool {
			if x.Dtype() != t.Dtype() {
				return false
			}
			if t.Dims() == 0 || x.Dims() == 0 {
				return true
			}
			if x.Dims() == 1 {
				return x.Shape()[0] == t.Shape()[t.Dims()-1]
			}
			return x.Shape()[x.Dims()-2] == t.Shape()[t.Dims()-1]
		})
		if b < 0 || r.Intn(12) == 0 {
			b = pickB(func(x *tensor.Dense) bool { return x.Dtype() == t.Dtype() })
		}
		dop := Op{Name: "Dot", In: []int{a, b}, Out: g.newSlot()}
		tb := w.get(b)
		if tb != nil && t.Dims() == 2 && tb.Dims() == 2 && r.Intn(2) == 0 {
			dop = withMode(dop, t.Shape()[0]*tb.Shape()[1])
		}
		return dop, true
	case 8: // TensorMul / Contract
		a := g.pick(and(fl, func(t *tensor.Dense) bool { return t.Dims() >= 1 }))
		if a < 0 {
			return Op{}, false
		}
		t := w.get(a)
		if r.Intn(3) == 0 {
			// several axes at once, up to all of them, against an operand of the same shape
			b := pickB(sameShapeDt(t))
			if b >= 0 {
				pm := g.perm(t.Dims())
				axes := pm[:1+r.Intn(t.Dims())]
				if r.Intn(2) == 0 {
					axes = pm
				}
				name := "TensorMul"
				if r.Intn(3) == 0 {
					name = "Contract"
				}
				return Op{Name: name, In: []int{a, b}, I: cloneInts(axes), J: cloneInts(axes), Out: g.newSlot()}, true
			}
		}
		ax := r.Intn(t.Dims())
		b := pickB(func(x *tensor.Dense) bool {
			if x.Dtype() != t.Dtype() || x.Dims() < 1 {
				return false
			}
			for _, d := range x.Shape() {
				if d == t.Shape()[ax] {
					return true
				}
			}
			return false
		})
		if b < 0 {
			return Op{}, false
		}
		bx := 0
		for i, d := range w.get(b).Shape() {
			if d == t.Shape()[ax] {
				bx = i
			}
		}
		name := "TensorMul"
		if r.Intn(3) == 0 {
			name = "Contract"
		}
		op := Op{Name: name, In: []int{a, b}, I: []int{ax}, J: []int{bx}, Out: g.newSlot()}
		if r.Intn(6) == 0 {
			op.I[0] = ax - t.Dims() // negative axis
		}
		return op, true
	default:
		if r.Intn(2) == 0 {
			a := g.pick(and(fl, dimsIs(2)))
			if a < 0 {
				return Op{}, false
			}
			if r.Intn(3) == 0 {
				if s := g.pick(and(isDt(floatDts...), dimsIs(2), smallInts)); s >= 0 {
					// singular values are compared between the two worlds of one process: same code, same input
					return Op{Name: "SVD", In: []int{s}, N: r.Intn(4), Out: g.newSlot()}, true
				}
			}
			return Op{Name: "Trace", In: []int{a}, Out: -1}, true
		}
		a := g.pick(and(isDt(floatDts...), smallInts))
		if a < 0 {
			return Op{}, false
		}
		t := w.get(a)
		y := g.pickWritable(and(sameShapeDt(t), smallInts))
		if y < 0 {
			return Op{}, false
		}
		if r.Intn(2) == 0 {
			return Op{Name: "FMA", Form: "vs", In: []int{a, y}, F: float64(r.Intn(5)), Out: g.newSlot(), Mode: "fma"}, true
		}
		x := pickB(sameShapeDt(t))
		return Op{Name: "FMA", In: []int{a, x, y}, Out: g.newSlot(), Mode: "fma"}, true
	}
}
