package main

import (
	"bytes"
	"encoding/gob"
	"fmt"
	"reflect"

	"gorgonia.org/tensor"
	"gorgonia.org/tensor/native"
)

type binFn func(a, b interface{}, opts ...tensor.FuncOpt) (tensor.Tensor, error)
type unFn func(a tensor.Tensor, opts ...tensor.FuncOpt) (tensor.Tensor, error)

var binFns = map[string]binFn{
	"Add": tensor.Add, "Sub": tensor.Sub, "Mul": tensor.Mul, "Div": tensor.Div, "Pow": tensor.Pow, "Mod": tensor.Mod,
	"MinBetween": tensor.MinBetween, "MaxBetween": tensor.MaxBetween,
	"Lt": tensor.Lt, "Gt": tensor.Gt, "Lte": tensor.Lte, "Gte": tensor.Gte, "ElEq": tensor.ElEq, "ElNe": tensor.ElNe,
}
var arithNames = []string{"Add", "Sub", "Mul", "Div", "Pow", "Mod", "MinBetween", "MaxBetween"}
var cmpNames = []string{"Lt", "Gt", "Lte", "Gte", "ElEq", "ElNe"}

var unFns = map[string]unFn{
	"Neg": tensor.Neg, "Inv": tensor.Inv, "Square": tensor.Square, "Cube": tensor.Cube, "Exp": tensor.Exp, "Tanh": tensor.Tanh,
	"Log": tensor.Log, "Log2": tensor.Log2, "Log10": tensor.Log10, "Sqrt": tensor.Sqrt, "Cbrt": tensor.Cbrt,
	"InvSqrt": tensor.InvSqrt, "Abs": tensor.Abs, "Sign": tensor.Sign,
}
var unNames = []string{"Neg", "Inv", "Square", "Cube", "Exp", "Tanh", "Log", "Log2", "Log10", "Sqrt", "Cbrt", "InvSqrt", "Abs", "Sign"}

var maskPreds = []string{"MaskedEqual", "MaskedNotEqual", "MaskedGreater", "MaskedGreaterEqual", "MaskedLess", "MaskedLessEqual",
	"MaskedInside", "MaskedOutside", "MaskedValues"}

type skipOp struct{}

func (w *World) in(op *Op, k int) *tensor.Dense {
	if k >= len(op.In) {
		panic(skipOp{})
	}
	t := w.get(op.In[k])
	if t == nil {
		panic(skipOp{})
	}
	return t
}

func (w *World) rslot(op *Op) *tensor.Dense {
	t := w.get(op.R)
	if t == nil {
		panic(skipOp{})
	}
	return t
}

func (w *World) funcOpts(op *Op) []tensor.FuncOpt {
	var opts []tensor.FuncOpt
	switch op.Mode {
	case "unsafe":
		opts = append(opts, tensor.UseUnsafe())
	case "reuse":
		opts = append(opts, tensor.WithReuse(w.rslot(op)))
	case "incr":
		opts = append(opts, tensor.WithIncr(w.rslot(op)))
	case "reuse-incr":
		inc := w.get(op.R2)
		if inc == nil {
			panic(skipOp{})
		}
		opts = append(opts, tensor.WithReuse(w.rslot(op)), tensor.WithIncr(inc))
	case "same":
		opts = append(opts, tensor.AsSameType())
	case "same-unsafe":
		opts = append(opts, tensor.AsSameType(), tensor.UseUnsafe())
	case "same-reuse":
		opts = append(opts, tensor.AsSameType(), tensor.WithReuse(w.rslot(op)))
	}
	return opts
}

func dtName(t *tensor.Dense) string {
	if t.Dtype().Type == nil {
		return "float64"
	}
	return t.Dtype().String()
}

func asDense(t tensor.Tensor, err error) (interface{}, error) {
	if err != nil {
		return nil, err
	}
	if d, ok := t.(*tensor.Dense); ok {
		return d, nil
	}
	return t, nil
}

func denses(w *World, op *Op, from int) []*tensor.Dense {
	var out []*tensor.Dense
	for k := from; k < len(op.In); k++ {
		out = append(out, w.in(op, k))
	}
	return out
}

func applyFn(dt string) interface{} {
	switch dt {
	case "float64":
		return func(x float64) float64 { return x*2 + 1 }
	case "float32":
		return func(x float32) float32 { return x*2 + 1 }
	case "int":
		return func(x int) int { return x*2 + 1 }
	case "int32":
		return func(x int32) int32 { return x*2 + 1 }
	case "int64":
		return func(x int64) int64 { return x*2 + 1 }
	case "uint8":
		return func(x uint8) uint8 { return x*2 + 1 }
	case "bool":
		return func(x bool) bool { return !x }
	case "string":
		return func(x string) string { return x + "!" }
	case "complex128":
		return func(x complex128) complex128 { return x*2 + 1 }
	}
	return func(x float64) float64 { return x }
}

func reduceFn(dt string) (fn interface{}, def interface{}) {
	switch dt {
	case "float64":
		return func(a, b float64) float64 { return a + 2*b }, float64(0)
	case "float32":
		return func(a, b float32) float32 { return a + 2*b }, float32(0)
	case "int":
		return func(a, b int) int { return a + 2*b }, int(0)
	case "int64":
		return func(a, b int64) int64 { return a + 2*b }, int64(0)
	case "uint8":
		return func(a, b uint8) uint8 { return a + 2*b }, uint8(0)
	}
	return func(a, b float64) float64 { return a + b }, float64(0)
}

// run executes op against the world and returns its raw result.
func (w *World) run(op *Op) (interface{}, error) {
	switch op.Name {
	// ------------------------------------------------------------------ construction
	case "New":
		return w.construct(op)
	case "NewOpt":
		// a ConsOpt is a value the caller may keep and use for several tensors: each of them must be a tensor of its own
		k := op.N & 3
		if w.sopts[k] == nil {
			dt := []string{"float64", "int", "float32", "bool"}[k]
			switch k {
			case 0, 1:
				w.sopts[k] = []tensor.ConsOpt{tensor.FromScalar(mkScalar(dt, float64(3+k)))}
			default:
				w.sopts[k] = []tensor.ConsOpt{tensor.WithShape(2, 1+k), tensor.Of(dtOf(dt))}
			}
		}
		return tensor.New(w.sopts[k]...), nil
	case "Ones":
		return tensor.Ones(dtOf(op.S), w.arg("shape", op.I)...), nil
	case "I":
		return tensor.I(dtOf(op.S), op.I[0], op.I[1], op.I[2]), nil
	case "Drop":
		// The program forgets the tensor; the harness keeps it reachable until the world is discarded. A view
		// records its parent as a bare uintptr (Dense.viewOf), which the library converts back to a pointer in
		// reuseCheckShape: once the parent is collected that is a dangling pointer, and the Go runtime aborts the
		// whole process with "found bad pointer in Go heap" when it meets it (seen once in 10^7 programs).
		if t := w.get(op.In[0]); t != nil {
			w.graveyard = append(w.graveyard, t)
		}
		w.set(op.In[0], nil)
		return nil, nil

	// ------------------------------------------------------------------ access
	case "At":
		return w.in(op, 0).At(w.arg("coords", op.I)...)
	case "SetAt":
		a := w.in(op, 0)
		return nil, a.SetAt(mkScalar(dtName(a), op.F), w.arg("coords", op.I)...)
	case "ScalarValue":
		return w.in(op, 0).ScalarValue(), nil
	case "Data":
		a := w.in(op, 0)
		d := a.Data()
		rv := reflect.ValueOf(d)
		if rv.Kind() == reflect.Slice {
			return fmt.Sprintf("%T len=%d", d, rv.Len()), nil
		}
		return d, nil

	// ------------------------------------------------------------------ slicing
	case "Slice":
		v, err := w.in(op, 0).Slice(w.sliceArg(op.I)...)
		if err != nil {
			return nil, err
		}
		return v.(*tensor.Dense), nil
	case "Narrow":
		v, err := w.in(op, 0).Narrow(op.I[0], op.I[1], op.I[2])
		if err != nil {
			return nil, err
		}
		return v.(*tensor.Dense), nil

	case "SliceInto":
		v, err := w.in(op, 0).SliceInto(w.rslot(op), w.sliceArg(op.I)...)
		if err != nil {
			return nil, err
		}
		return v.(*tensor.Dense), nil
	case "ShapeCalc":
		// the shape-only calculators take caller-owned slices too
		a := w.in(op, 0)
		h := uint64(fnvOff)
		sh := a.Shape()
		if s2, err := sh.S(w.sliceArg(op.I)...); err == nil {
			h = hashInts(h, s2)
		} else {
			h = fnvAdd(h, 9)
		}
		if s3, fin, sz, err := sh.Repeat(op.N, w.arg("repeats", op.J)...); err == nil {
			h = hashInts(hashInts(h, s3), fin)
			h = fnvU64(h, uint64(sz))
		} else {
			h = fnvAdd(h, 8)
		}
		if s4, err := sh.Concat(op.N, sh, sh); err == nil {
			h = hashInts(h, s4)
		}
		if d := sh.Dims(); d > 0 {
			ap := a.Info()
			if nap, ax, err := ap.T(w.arg("axes", op.J)...); err == nil {
				h = hashInts(hashInts(h, nap.Shape()), ax)
			}
		}
		return h, nil

	// ------------------------------------------------------------------ transposes
	case "T":
		return nil, w.in(op, 0).T(w.arg("axes", op.I)...)
	case "UT":
		w.in(op, 0).UT()
		return nil, nil
	case "Transpose":
		return nil, w.in(op, 0).Transpose()
	case "SafeT":
		return w.in(op, 0).SafeT(w.arg("axes", op.I)...)
	case "RollAxis":
		return w.in(op, 0).RollAxis(op.I[0], op.I[1], op.Mode != "unsafe")
	case "PkgT":
		return asDense(tensor.T(w.in(op, 0), w.arg("axes", op.I)...))
	case "PkgTranspose":
		return asDense(tensor.Transpose(w.in(op, 0), w.arg("axes", op.I)...))

	// ------------------------------------------------------------------ copies / views
	case "Clone":
		return w.in(op, 0).Clone().(*tensor.Dense), nil
	case "ShallowClone":
		return w.in(op, 0).ShallowClone(), nil
	case "Materialize":
		return asDense(w.in(op, 0).Materialize(), nil)
	case "Copy":
		return nil, tensor.Copy(w.rslot(op), w.in(op, 0))
	case "CopyTo":
		return nil, w.in(op, 0).CopyTo(w.rslot(op))
	case "Memset":
		a := w.in(op, 0)
		return nil, a.Memset(mkScalar(dtName(a), op.F))
	case "Zero":
		w.in(op, 0).Zero()
		return nil, nil
	case "Eq":
		return w.in(op, 0).Eq(w.in(op, 1)), nil
	case "Reshape":
		return nil, w.in(op, 0).Reshape(w.arg("shape", op.I)...)

	// ------------------------------------------------------------------ iterators
	case "IterWalk":
		a := w.in(op, 0)
		it := a.Iterator()
		if op.Mode == "reverse" {
			it.SetReverse()
		}
		h := uint64(fnvOff)
		for i, err := it.Next(); err == nil; i, err = it.Next() {
			h = fnvU64(h, uint64(i))
			h = hashInts(h, it.Coord())
		}
		return h, nil
	case "IterValid":
		a := w.in(op, 0)
		it := a.Iterator()
		h := uint64(fnvOff)
		n := 0
		for i, s, err := it.NextValid(); err == nil && n < 4096; i, s, err = it.NextValid() {
			h = fnvU64(h, uint64(i))
			h = fnvU64(h, uint64(s))
			n++
		}
		return h, nil
	case "MultIter":
		ts := denses(w, op, 0)
		dts := make([]tensor.DenseTensor, len(ts))
		for i, t := range ts {
			dts[i] = t
		}
		it := tensor.IteratorFromDense(dts...)
		h := uint64(fnvOff)
		n := 0
		if mit, ok := it.(*tensor.MultIterator); ok {
			for _, err := mit.Start(); err == nil && n != op.N; _, err = mit.Next() {
				for j := range ts {
					h = fnvU64(h, uint64(mit.LastIndex(j)))
				}
				h = hashInts(h, it.Coord())
				n++
			}
		} else {
			for i, err := it.Next(); err == nil && n != op.N; i, err = it.Next() {
				h = fnvU64(h, uint64(i))
				n++
			}
		}
		switch op.Mode {
		case "keep":
			w.iters = append(w.iters, it)
		default:
			F[w.client].Drop(it)
		}
		return h, nil
	case "DropIters":
		for _, it := range w.iters {
			F[w.client].Drop(it)
		}
		w.iters = nil
		return nil, nil
	case "FireFinalizers":
		r := RNG{s: uint64(op.N)}
		return F[w.client].FireSome(&r, 3, 4), nil

	// ------------------------------------------------------------------ unary, map
	case "SoftMax":
		return asDense(tensor.SoftMax(w.in(op, 0), op.N, w.funcOpts(op)...))
	case "LogSoftMax":
		return asDense(tensor.LogSoftMax(w.in(op, 0), op.N, w.funcOpts(op)...))
	case "SoftMaxB":
		return asDense(tensor.SoftMaxB(w.in(op, 0), w.in(op, 1), op.N, w.funcOpts(op)...))
	case "LogSoftMaxB":
		return asDense(tensor.LogSoftMaxB(w.in(op, 0), w.in(op, 1), op.N, w.funcOpts(op)...))
	case "Clamp":
		a := w.in(op, 0)
		return asDense(tensor.Clamp(a, mkScalar(dtName(a), op.F), mkScalar(dtName(a), op.F+3), w.funcOpts(op)...))
	case "Apply":
		a := w.in(op, 0)
		return asDense(a.Apply(applyFn(dtName(a)), w.funcOpts(op)...))
	case "Reduce":
		a := w.in(op, 0)
		fn, def := reduceFn(dtName(a))
		return a.Reduce(fn, op.N, def)

	// ------------------------------------------------------------------ reductions
	case "Sum":
		return w.in(op, 0).Sum(w.arg("axes", op.I)...)
	case "Max":
		return w.in(op, 0).Max(w.arg("axes", op.I)...)
	case "Min":
		return w.in(op, 0).Min(w.arg("axes", op.I)...)
	case "PkgSum":
		return asDense(tensor.Sum(w.in(op, 0), w.arg("axes", op.I)...))
	case "Norm":
		var ord tensor.NormOrder
		switch op.N {
		case 0:
			ord = tensor.UnorderedNorm()
		case 1:
			ord = tensor.FrobeniusNorm()
		case 2:
			ord = tensor.Norm(2)
		case 3:
			ord = tensor.Norm(1)
		case 4:
			ord = tensor.InfNorm()
		case 5:
			ord = tensor.NegInfNorm()
		default:
			ord = tensor.Norm(0)
		}
		return w.in(op, 0).Norm(ord, w.arg("axes", op.I)...)
	case "Argmax":
		return w.in(op, 0).Argmax(op.N)
	case "Argmin":
		return w.in(op, 0).Argmin(op.N)

	// ------------------------------------------------------------------ products
	case "Inner":
		return w.in(op, 0).Inner(w.in(op, 1))
	case "PkgInner":
		return tensor.Inner(w.in(op, 0), w.in(op, 1))
	case "MatVecMul":
		return w.in(op, 0).MatVecMul(w.in(op, 1), w.funcOpts(op)...)
	case "MatMul":
		return w.in(op, 0).MatMul(w.in(op, 1), w.funcOpts(op)...)
	case "Outer":
		return w.in(op, 0).Outer(w.in(op, 1), w.funcOpts(op)...)
	case "TensorMul":
		return w.in(op, 0).TensorMul(w.in(op, 1), w.arg("axesA", op.I), w.arg("axesB", op.J))
	case "Contract":
		return asDense(tensor.Contract(w.in(op, 0), w.in(op, 1), w.arg("axesA", op.I), w.arg("axesB", op.J)))
	case "Dot":
		return asDense(tensor.Dot(w.in(op, 0), w.in(op, 1), w.funcOpts(op)...))
	case "Trace":
		return w.in(op, 0).Trace()
	case "FMA":
		if op.Form == "vs" {
			a := w.in(op, 0)
			return asDense(tensor.FMA(a, mkScalar(dtName(a), op.F), w.in(op, 1)))
		}
		return asDense(tensor.FMA(w.in(op, 0), w.in(op, 1), w.in(op, 2)))

	// ------------------------------------------------------------------ assembly
	case "Concat":
		return w.in(op, 0).Concat(op.N, denses(w, op, 1)...)
	case "PkgConcat":
		ts := denses(w, op, 1)
		others := make([]tensor.Tensor, len(ts))
		for i := range ts {
			others[i] = ts[i]
		}
		return asDense(tensor.Concat(op.N, w.in(op, 0), others...))
	case "Stack":
		return w.in(op, 0).Stack(op.N, denses(w, op, 1)...)
	case "Hstack":
		return w.in(op, 0).Hstack(denses(w, op, 1)...)
	case "Vstack":
		return w.in(op, 0).Vstack(denses(w, op, 1)...)
	case "Repeat":
		return asDense(w.in(op, 0).Repeat(op.N, w.arg("repeats", op.I)...))
	case "PkgRepeat":
		return asDense(tensor.Repeat(w.in(op, 0), op.N, w.arg("repeats", op.I)...))
	case "RepeatReuse":
		return asDense(tensor.RepeatReuse(w.in(op, 0), w.rslot(op), op.N, w.arg("repeats", op.I)...))

	// ------------------------------------------------------------------ serialisation (in-memory round trips)
	case "Gob":
		a := w.in(op, 0)
		var buf bytes.Buffer
		if err := gob.NewEncoder(&buf).Encode(a); err != nil {
			return nil, err
		}
		d := new(tensor.Dense)
		if err := gob.NewDecoder(&buf).Decode(d); err != nil {
			return nil, err
		}
		return d, nil
	case "Npy":
		a := w.in(op, 0)
		var buf bytes.Buffer
		if err := a.WriteNpy(&buf); err != nil {
			return nil, err
		}
		d := new(tensor.Dense)
		if err := d.ReadNpy(&buf); err != nil {
			return nil, err
		}
		return d, nil
	case "CSV":
		a := w.in(op, 0)
		var buf bytes.Buffer
		if err := a.WriteCSV(&buf); err != nil {
			return nil, err
		}
		d := new(tensor.Dense)
		if err := d.ReadCSV(&buf, tensor.As(a.Dtype())); err != nil {
			return nil, err
		}
		return d, nil
	case "PB":
		a := w.in(op, 0)
		b, err := a.PBEncode()
		if err != nil {
			return nil, err
		}
		d := new(tensor.Dense)
		if err := d.PBDecode(b); err != nil {
			return nil, err
		}
		return d, nil
	case "FB":
		a := w.in(op, 0)
		b, err := a.FBEncode()
		if err != nil {
			return nil, err
		}
		d := new(tensor.Dense)
		if err := d.FBDecode(b); err != nil {
			return nil, err
		}
		return d, nil
	case "DecodeInto":
		// serialise In[0] and decode the bytes into an EXISTING tensor (slot R): the receiver gets new
		// contents, nobody else may change - not even the tensors whose storage the receiver used to share
		a := w.in(op, 0)
		dst := w.rslot(op)
		var b []byte
		var err error
		switch op.S {
		case "pb":
			b, err = a.PBEncode()
		case "fb":
			b, err = a.FBEncode()
		case "npy":
			var buf bytes.Buffer
			err = a.WriteNpy(&buf)
			b = buf.Bytes()
		default:
			b, err = a.GobEncode()
		}
		if err != nil {
			return nil, err
		}
		switch op.S {
		case "pb":
			err = dst.PBDecode(b)
		case "fb":
			err = dst.FBDecode(b)
		case "npy":
			err = dst.ReadNpy(bytes.NewReader(b))
		default:
			err = dst.GobDecode(b)
		}
		return nil, err
	case "Format":
		a := w.in(op, 0)
		return fmt.Sprintf(op.S, a), nil

	// ------------------------------------------------------------------ masks
	case "ResetMask":
		return nil, w.in(op, 0).ResetMask(op.N != 0)
	case "HardenMask":
		return w.in(op, 0).HardenMask(), nil
	case "SoftenMask":
		return w.in(op, 0).SoftenMask(), nil
	case "MaskInspect":
		a := w.in(op, 0)
		h := uint64(fnvOff)
		h = hashValue(h, a.MaskedCount())
		h = hashValue(h, a.NonMaskedCount())
		h = hashValue(h, a.MaskedAny())
		h = hashValue(h, a.MaskedAll())
		if a.Dims() > 0 && op.N >= 0 {
			h = hashValue(h, a.MaskedCount(op.N))
			h = hashValue(h, a.MaskedAny(op.N))
		}
		return h, nil
	case "MaskRuns":
		a := w.in(op, 0)
		h := uint64(fnvOff)
		h = hashValue(h, a.FlatNotMaskedContiguous())
		h = hashValue(h, a.FlatMaskedContiguous())
		s, e := a.FlatNotMaskedEdges()
		h = fnvU64(fnvU64(h, uint64(s)), uint64(e))
		s, e = a.FlatMaskedEdges()
		h = fnvU64(fnvU64(h, uint64(s)), uint64(e))
		h = hashValue(h, a.ClumpMasked())
		h = hashValue(h, a.ClumpUnmasked())
		return h, nil
	case "Filled":
		a := w.in(op, 0)
		v, err := a.Filled(mkScalar(dtName(a), op.F))
		return v, err
	case "FilledInplace":
		a := w.in(op, 0)
		_, err := a.FilledInplace(mkScalar(dtName(a), op.F))
		return nil, err
	case "MaskAt":
		return w.in(op, 0).MaskAt(w.arg("coords", op.I)...)
	case "SetMaskAt":
		return nil, w.in(op, 0).SetMaskAt(op.N != 0, w.arg("coords", op.I)...)

	case "SetMaskAtIndex":
		return nil, w.in(op, 0).SetMaskAtIndex(op.F != 0, op.N)
	case "MaskFromSlice":
		// the caller's slice of flags (ints here): copied into the mask, never kept
		w.in(op, 0).MaskFromSlice(w.arg("maskflags", op.I))
		return nil, nil
	case "SVD":
		s, u, v, err := w.in(op, 0).SVD(op.N&1 != 0, op.N&2 != 0)
		if err != nil {
			return nil, err
		}
		h := uint64(fnvOff)
		for _, x := range []*tensor.Dense{s, u, v} {
			if x != nil {
				h = fnvU64(h, snapOf(x).All())
			}
		}
		if s == nil {
			return h, nil
		}
		return s, nil
	case "CSRDense":
		// I = rows, cols, n, then n row coordinates and n column coordinates (the caller's slices)
		r, c, n := op.I[0], op.I[1], op.I[2]
		xs := w.arg("coords", op.I[3:3+n])
		ys := w.arg("coords", op.I[3+n:3+2*n])
		var cs *tensor.CS
		if op.N&1 == 0 {
			cs = tensor.CSRFromCoord(tensor.Shape{r, c}, xs, ys, mkBacking(op.S, n, int(op.F)))
		} else {
			cs = tensor.CSCFromCoord(tensor.Shape{r, c}, xs, ys, mkBacking(op.S, n, int(op.F)))
		}
		return cs.Dense(), nil
	case "SharedCS":
		// like CSRDense, but the sparse matrix itself is kept (w.sparse) for SparseRead
		r, c, n := op.I[0], op.I[1], op.I[2]
		xs := w.arg("coords", op.I[3:3+n])
		ys := w.arg("coords", op.I[3+n:3+2*n])
		if op.N&1 == 0 {
			w.sparse = append(w.sparse, tensor.CSRFromCoord(tensor.Shape{r, c}, xs, ys, mkBacking(op.S, n, int(op.F))))
		} else {
			w.sparse = append(w.sparse, tensor.CSCFromCoord(tensor.Shape{r, c}, xs, ys, mkBacking(op.S, n, int(op.F))))
		}
		return nil, nil
	case "NewCS":
		// NewCSR / NewCSC from index lists (the matrix's own storage, like a backing slice) and a shape that is
		// the caller's list: I = rows, cols, then one column-set bit mask per row (CSC: row set per column)
		rows, cols := op.I[0], op.I[1]
		major, minor := rows, cols
		if op.N&1 == 1 {
			major, minor = cols, rows
		}
		indptr := []int{0}
		var indices []int
		for m := 0; m < major; m++ {
			for b := 0; b < minor; b++ {
				if op.I[2+m]>>uint(b)&1 == 1 {
					indices = append(indices, b)
				}
			}
			indptr = append(indptr, len(indices))
		}
		shape := w.arg("shape", []int{rows, cols})
		var cs *tensor.CS
		if op.N&1 == 0 {
			cs = tensor.NewCSR(indices, indptr, mkBacking(op.S, len(indices), int(op.F)), tensor.WithShape(shape...))
		} else {
			cs = tensor.NewCSC(indices, indptr, mkBacking(op.S, len(indices), int(op.F)), tensor.WithShape(shape...))
		}
		w.sparse = append(w.sparse, cs)
		return nil, nil
	case "SparseT":
		// the sparse matrix is the destination: T or UT
		if len(w.sparse) == 0 {
			return nil, fmt.Errorf("no sparse matrix in this world")
		}
		cs := w.sparse[op.I[0]%len(w.sparse)]
		if op.I[1]%2 == 0 {
			return nil, cs.T()
		}
		cs.UT()
		return nil, nil
	case "SparseRead":
		// reads of a sparse matrix that other clients read too: I[0] picks the matrix, I[1] the way of reading
		if len(w.sparse) == 0 {
			return nil, fmt.Errorf("no sparse matrix in this world")
		}
		cs := w.sparse[op.I[0]%len(w.sparse)]
		rows, cols := cs.Shape()[0], cs.Shape()[1]
		if rows < 0 || cols < 0 || rows > 64 || cols > 64 {
			// no program builds such a matrix: its shape was changed behind its back (reading it would
			// allocate without bound); the outcome names the shape, so the two worlds differ
			return nil, fmt.Errorf("sparse matrix claims the shape %v", cs.Shape())
		}
		switch op.I[1] % 5 {
		case 0, 1: // every element through At, columns ascending or descending
			vals := make([]float64, 0, rows*cols)
			for i := 0; i < rows; i++ {
				for j := 0; j < cols; j++ {
					jj := j
					if op.I[1]%5 == 1 {
						jj = cols - 1 - j
					}
					v, err := cs.At(i, jj)
					if err != nil {
						return nil, err
					}
					vals = append(vals, reflect.ValueOf(v).Convert(reflect.TypeOf(float64(0))).Float())
				}
			}
			return tensor.New(tensor.WithShape(rows, cols), tensor.WithBacking(vals)), nil
		case 2: // the storage positions its iterator yields
			var idx []int
			it := cs.Iterator()
			for i, err := it.Next(); err == nil; i, err = it.Next() {
				idx = append(idx, i)
				if len(idx) > rows*cols+1 {
					return nil, fmt.Errorf("sparse iterator yields more positions than the matrix has elements")
				}
			}
			return tensor.New(tensor.WithShape(len(idx)), tensor.WithBacking(idx)), nil
		case 3:
			return cs.Dense(), nil
		default:
			return cs.Clone().(*tensor.CS).Dense(), nil
		}
	case "DenseDiag":
		return tensor.New(tensor.AsDenseDiag(mkBacking(op.S, op.N, int(op.F)))), nil
	case "MaskFromDense":
		w.in(op, 0).MaskFromDense(denses(w, op, 1)...)
		return nil, nil
	case "ByIndices":
		a := w.in(op, 0)
		idx := tensor.New(tensor.WithBacking(w.arg("indices", op.I)))
		return asDense(tensor.ByIndices(a, idx, op.N, w.funcOpts(op)...))
	case "ByIndicesB":
		a := w.in(op, 0)
		idx := tensor.New(tensor.WithBacking(w.arg("indices", op.I)))
		return asDense(tensor.ByIndicesB(a, w.in(op, 1), idx, op.N, w.funcOpts(op)...))
	case "Diag":
		return asDense(tensor.Diag(w.in(op, 0)))
	case "FromMat64":
		a := w.in(op, 0)
		var opts []tensor.FuncOpt
		if op.Mode == "unsafe" {
			opts = append(opts, tensor.UseUnsafe())
		}
		if op.Mode == "mixed" {
			// a matrix obtained as a copy (no UseUnsafe), then a tensor laid over that matrix: shares with the matrix,
			// not with the source tensor
			m, err := tensor.ToMat64(a)
			if err != nil {
				return nil, err
			}
			return tensor.FromMat64(m, tensor.UseUnsafe()), nil
		}
		m, err := tensor.ToMat64(a, opts...)
		if err != nil {
			return nil, err
		}
		return tensor.FromMat64(m, opts...), nil
	case "NativeSelect":
		a := w.in(op, 0)
		var v interface{}
		var err error
		switch dtName(a) {
		case "float64":
			v, err = native.SelectF64(a, op.N)
		case "float32":
			v, err = native.SelectF32(a, op.N)
		case "int":
			v, err = native.SelectI(a, op.N)
		default:
			return nil, fmt.Errorf("no native select for %s", dtName(a))
		}
		if err != nil {
			return nil, err
		}
		return fmt.Sprintf("%v", v), nil

	// ------------------------------------------------------------------ conversions
	case "Native":
		return w.nativeConv(op)
	case "ToMat64":
		a := w.in(op, 0)
		var opts []tensor.FuncOpt
		if op.Mode == "unsafe" {
			opts = append(opts, tensor.UseUnsafe())
		}
		m, err := tensor.ToMat64(a, opts...)
		if err != nil {
			return nil, err
		}
		res := fmt.Sprintf("%v", m.RawMatrix().Data)
		if op.Mode != "unsafe" {
			// without UseUnsafe the matrix is the caller's own copy: the caller writes into it
			d := m.RawMatrix().Data
			for i := range d {
				d[i] = -12345.5
			}
		}
		return res, nil

	// ------------------------------------------------------------------ lifecycle
	case "ReturnTensor":
		a := w.in(op, 0)
		for i, t := range w.slots {
			if t == a {
				w.slots[i] = nil
			}
		}
		tensor.ReturnTensor(a)
		return nil, nil
	case "UsePool":
		tensor.UsePool()
		return nil, nil
	case "DontUsePool":
		tensor.DontUsePool()
		return nil, nil
	case "ArmFault":
		if w.eng != nil {
			w.eng.st.countdown = op.N
		}
		return nil, nil
	}

	if fn, ok := binFns[op.Name]; ok {
		var a, b interface{}
		switch op.Form {
		case "vs":
			t := w.in(op, 0)
			a, b = t, mkScalar(dtName(t), op.F)
		case "sv":
			t := w.in(op, 0)
			a, b = mkScalar(dtName(t), op.F), t
		default:
			a, b = w.in(op, 0), w.in(op, 1)
		}
		return asDense(fn(a, b, w.funcOpts(op)...))
	}
	if fn, ok := unFns[op.Name]; ok {
		return asDense(fn(w.in(op, 0), w.funcOpts(op)...))
	}
	for _, p := range maskPreds {
		if p == op.Name {
			return nil, w.maskPred(op)
		}
	}
	panic("unknown op " + op.Name)
}

func (w *World) maskPred(op *Op) error {
	a := w.in(op, 0)
	v1 := mkScalar(dtName(a), op.F)
	v2 := mkScalar(dtName(a), op.F+2)
	switch op.Name {
	case "MaskedEqual":
		return a.MaskedEqual(v1)
	case "MaskedNotEqual":
		return a.MaskedNotEqual(v1)
	case "MaskedGreater":
		return a.MaskedGreater(v1)
	case "MaskedGreaterEqual":
		return a.MaskedGreaterEqual(v1)
	case "MaskedLess":
		return a.MaskedLess(v1)
	case "MaskedLessEqual":
		return a.MaskedLessEqual(v1)
	case "MaskedInside":
		return a.MaskedInside(v1, v2)
	case "MaskedOutside":
		return a.MaskedOutside(v1, v2)
	case "MaskedValues":
		return a.MaskedValues(v1, mkScalar(dtName(a), 1))
	}
	return nil
}

func (w *World) construct(op *Op) (interface{}, error) {
	dt := op.S
	shape := op.I
	n := prod(shape)
	var opts []tensor.ConsOpt
	if w.eng != nil && op.N&4 != 0 {
		opts = append(opts, tensor.WithEngine(*w.eng))
	} else if op.N&8 != 0 && dt == "float64" {
		opts = append(opts, tensor.WithEngine(tensor.Float64Engine{}))
	} else if op.N&8 != 0 && dt == "float32" {
		opts = append(opts, tensor.WithEngine(tensor.Float32Engine{}))
	}
	var mask []bool
	if op.N&1 != 0 {
		mask = mkMask(n, int(op.F))
	}
	switch op.Mode {
	case "scalar":
		if mask != nil {
			opts = append(opts, tensor.FromScalar(mkScalar(dt, val(int(op.F), 0)), mask[:1]))
		} else {
			opts = append(opts, tensor.FromScalar(mkScalar(dt, val(int(op.F), 0))))
		}
		return tensor.New(opts...), nil
	case "of":
		opts = append(opts, tensor.Of(dtOf(dt)), tensor.WithShape(w.arg("shape", shape)...))
		return tensor.New(opts...), nil
	case "col":
		opts = append(opts, tensor.WithShape(w.arg("shape", shape)...))
		if mask != nil {
			opts = append(opts, tensor.AsFortran(mkBacking(dt, n, int(op.F)), mask))
		} else {
			opts = append(opts, tensor.AsFortran(mkBacking(dt, n, int(op.F))))
		}
		return tensor.New(opts...), nil
	case "colraw":
		opts = append(opts, tensor.WithShape(w.arg("shape", shape)...), tensor.WithBacking(mkBacking(dt, n, int(op.F))), tensor.AsFortran(nil))
		return tensor.New(opts...), nil
	case "rowspare":
		// the caller's backing slice is the front part of a longer slice of the caller's: the tensor
		// shares (documented) the first n elements, the tail stays the caller's
		full := reflect.ValueOf(mkBacking(dt, n+5, int(op.F)))
		w.backs = append(w.backs, backRec{full: full, n: n, tail: fmt.Sprint(full.Slice(n, n+5).Interface()), step: w.step})
		opts = append(opts, tensor.WithShape(w.arg("shape", shape)...), tensor.WithBacking(full.Slice(0, n).Interface()))
		return tensor.New(opts...), nil
	default:
		if mask != nil {
			opts = append(opts, tensor.WithShape(w.arg("shape", shape)...), tensor.WithBacking(mkBacking(dt, n, int(op.F)), mask))
		} else {
			opts = append(opts, tensor.WithShape(w.arg("shape", shape)...), tensor.WithBacking(mkBacking(dt, n, int(op.F))))
		}
		return tensor.New(opts...), nil
	}
}

func (w *World) nativeConv(op *Op) (interface{}, error) {
	a := w.in(op, 0)
	var v interface{}
	var err error
	key := fmt.Sprintf("%d%s", op.N, dtName(a))
	switch key {
	case "1float64":
		v, err = native.VectorF64(a)
	case "2float64":
		v, err = native.MatrixF64(a)
	case "3float64":
		v, err = native.Tensor3F64(a)
	case "1float32":
		v, err = native.VectorF32(a)
	case "2float32":
		v, err = native.MatrixF32(a)
	case "3float32":
		v, err = native.Tensor3F32(a)
	case "1int":
		v, err = native.VectorI(a)
	case "2int":
		v, err = native.MatrixI(a)
	case "3int":
		v, err = native.Tensor3I(a)
	case "1string":
		v, err = native.VectorStr(a)
	case "2string":
		v, err = native.MatrixStr(a)
	case "1bool":
		v, err = native.VectorB(a)
	case "2bool":
		v, err = native.MatrixB(a)
	case "2uint8":
		v, err = native.MatrixU8(a)
	case "2complex128":
		v, err = native.MatrixC128(a)
	case "2int64":
		v, err = native.MatrixI64(a)
	default:
		return nil, fmt.Errorf("no native conversion for %s", key)
	}
	if err != nil {
		return nil, err
	}
	return fmt.Sprintf("%v", v), nil
}

// dests lists the slots an operation is allowed to modify (metadata and elements); everything not
// sharing storage with one of them must keep its elements, and everything else its metadata.
func (w *World) dests(op *Op) []int {
	var d []int
	// in the unsafe modes the destination is the operand the operation overwrites and returns; for a
	// scalar-tensor first operand and a larger second operand that is the second one
	if op.Mode == "unsafe" || op.Mode == "same-unsafe" {
		if w.lastRes >= 0 {
			d = append(d, w.lastRes)
		} else if len(op.In) > 1 && op.Form == "vv" {
			// no result (error or panic half way): if the first operand holds a single element and the
			// second is larger, the second is the one an unsafe operation works in
			a, b := w.get(op.In[0]), w.get(op.In[1])
			if a != nil && b != nil && ((a.Shape().TotalSize() == 1 && b.Shape().TotalSize() > 1) || (a.IsScalar() && !b.IsScalar())) {
				d = append(d, op.In[1])
			}
		}
	}
	switch op.Name {
	case "SetAt", "T", "UT", "Transpose", "Memset", "Zero", "Reshape", "ResetMask", "HardenMask", "SoftenMask",
		"FilledInplace", "SetMaskAt", "SetMaskAtIndex", "MaskFromSlice", "ReturnTensor", "Drop":
		d = append(d, op.In[0])
	case "RollAxis":
		if op.Mode == "unsafe" {
			d = append(d, op.In[0])
		}
	case "Copy", "CopyTo", "RepeatReuse", "SliceInto", "DecodeInto":
		d = append(d, op.R)
	case "MaskFromDense":
		d = append(d, op.In[0])
	case "FMA":
		d = append(d, op.In[len(op.In)-1])
	}
	for _, p := range maskPreds {
		if p == op.Name {
			d = append(d, op.In[0])
		}
	}
	switch op.Mode {
	case "unsafe", "same-unsafe":
		if len(op.In) > 0 {
			d = append(d, op.In[0])
		}
	case "reuse", "incr", "same-reuse":
		d = append(d, op.R)
	case "reuse-incr":
		d = append(d, op.R, op.R2)
	}
	return d
}

// retireFailedDest: an operation that fails after it started preparing its reuse / incr tensor may leave
// that tensor - its named destination, which it is entitled to change - with a shape that no longer fits its
// storage (handleReuse reshapes before sanity() refuses). What later operations do with such a tensor says
// nothing about the properties, so the program stops using it (in every world alike).
func (w *World) retireFailedDest(op *Op, panicked bool) {
	var rs []int
	switch op.Name {
	case "DecodeInto":
		// a decoder that gives up half way leaves its receiver undefined
		rs = append(rs, op.R)
	case "Copy", "CopyTo", "RepeatReuse", "SliceInto":
		if panicked {
			rs = append(rs, op.R)
		}
	case "Reshape", "T", "Transpose", "RollAxis":
		// in-place changes of the access pattern that refuse half way (Reshape sets the shape and then finds
		// that it does not fit the storage) leave their own operand undefined
		if op.Name != "RollAxis" || op.Mode == "unsafe" {
			rs = append(rs, op.In[0])
		}
	}
	switch op.Mode {
	case "reuse", "incr", "same-reuse":
		rs = append(rs, op.R)
	case "reuse-incr":
		rs = append(rs, op.R, op.R2)
	}
	for _, r := range rs {
		if t := w.get(r); t != nil {
			w.graveyard = append(w.graveyard, t)
			for i := range w.slots {
				if w.slots[i] == t {
					w.slots[i] = nil
				}
			}
		}
	}
}

// Exec runs one operation, recovering panics, and stores a tensor result in op.Out.
func (w *World) Exec(op *Op) (out Outcome) {
	w.opArgs = len(w.args)
	defer func() {
		if r := recover(); r != nil {
			switch r.(type) {
			case skipOp:
				out = Outcome{St: stSkip}
			case deadlockPanic:
				out = Outcome{St: stDeadlock}
			case budgetPanic:
				out = Outcome{St: stBudget}
			default:
				out = Outcome{St: stPanic}
				w.lastErr = fmt.Sprint(r)
				w.retireFailedDest(op, true)
			}
		}
	}()
	w.lastRes = -1
	S.beginOp()
	F[w.client].BeginOp()
	defer func() { F[w.client].EndOp(w.iters) }()
	res, err := w.run(op)
	if err != nil {
		w.lastErr = err.Error()
		w.retireFailedDest(op, false)
		return Outcome{St: stErr}
	}
	h := uint64(fnvOff)
	if d, ok := res.(*tensor.Dense); ok && d != nil {
		// identity relation with the operands
		ident := -1
		for k, s := range op.In {
			if w.get(s) == d {
				ident = k
				w.lastRes = s
				break
			}
		}
		if ident < 0 && (op.Mode == "reuse" || op.Mode == "incr" || op.Mode == "same-reuse" || op.Mode == "reuse-incr") && w.get(op.R) == d {
			ident = 100
		}
		if ident < 0 && op.Mode == "reuse-incr" && w.get(op.R2) == d {
			ident = 101
		}
		h = fnvU64(h, uint64(ident+1))
		h = fnvU64(h, snapOf(d).All())
		if ident < 0 && len(tensor.VerifRaw(d)) > 16<<20 {
			// a result of more than 16 MB is compared and then dropped (in every world alike): chains of growing
			// results would exhaust the memory of the worker
			w.set(op.Out, nil)
		} else {
			w.set(op.Out, d)
		}
	} else {
		h = hashValue(h, res)
	}
	return Outcome{St: stOK, H: h}
}
