package main

import (
	"fmt"
	"reflect"
	"unsafe"

	"gorgonia.org/tensor"
)

// Snap is the observable and internal state of one tensor as group hashes. Two tensors with
// the same Snap have the same dtype, shape, strides, order flags, view status, engine kind (Meta),
// the same saved access pattern and pending transposition axes (Hist), the same mask (Mask) and the
// same bytes in their whole backing window (Data).
type Snap struct {
	Meta, Hist, Mask, Data uint64
}

func (s Snap) All() uint64 {
	h := uint64(fnvOff)
	h = fnvU64(h, s.Meta)
	h = fnvU64(h, s.Hist)
	h = fnvU64(h, s.Mask)
	h = fnvU64(h, s.Data)
	return h
}

func hashInts(h uint64, s []int) uint64 {
	h = fnvU64(h, uint64(len(s)))
	for _, v := range s {
		h = fnvU64(h, uint64(v))
	}
	return h
}

func snapOf(t *tensor.Dense) Snap {
	var s Snap
	in := tensor.VerifInternals(t)
	h := uint64(fnvOff)
	if t.Dtype().Type != nil {
		h = fnvStr(h, t.Dtype().String())
	} else {
		h = fnvStr(h, "<nil dtype>")
	}
	h = hashInts(h, in.Shape)
	h = hashInts(h, in.Strides)
	h = fnvU64(h, uint64(in.DataOrder))
	h = fnvU64(h, uint64(in.Triangle))
	h = fnvU64(h, uint64(in.Flag))
	if in.ViewOf != 0 {
		h = fnvAdd(h, 1)
	} else {
		h = fnvAdd(h, 0)
	}
	if in.EngineIsStd {
		h = fnvAdd(h, 1)
	} else {
		h = fnvAdd(h, 0)
	}
	h = fnvU64(h, uint64(in.RawLen))
	s.Meta = h

	h = fnvOff
	h = hashInts(h, in.OldShape)
	h = hashInts(h, in.OldStrides)
	if in.TransposeWith == nil {
		h = fnvAdd(h, 0)
	} else {
		h = fnvAdd(h, 1)
		h = hashInts(h, in.TransposeWith)
	}
	s.Hist = h

	h = fnvOff
	h = fnvU64(h, uint64(len(in.Mask)))
	for _, b := range in.Mask {
		if b {
			h = fnvAdd(h, 1)
		} else {
			h = fnvAdd(h, 0)
		}
	}
	if in.MaskIsSoft {
		h = fnvAdd(h, 1)
	} else {
		h = fnvAdd(h, 0)
	}
	s.Mask = h

	s.Data = dataHash(t)
	return s
}

func dataHash(t *tensor.Dense) uint64 {
	h := uint64(fnvOff)
	raw := tensor.VerifRaw(t)
	if len(raw) == 0 || t.Dtype().Type == nil {
		return h
	}
	if t.Dtype() == tensor.String {
		esz := int(t.Dtype().Size())
		n := len(raw) / esz
		strs := unsafeStrings(raw, n)
		for _, x := range strs {
			h = fnvStr(h, x)
		}
		return h
	}
	if isPointerDt(t.Dtype()) {
		return fnvU64(h, uint64(len(raw)))
	}
	// NaNs are compared as NaNs, not by payload and sign: which payload an arithmetic kernel
	// propagates depends on operand order inside vectorised loops, which depends on the alignment
	// of the allocation - no two executions agree on it, and no property is about it.
	switch t.Dtype() {
	case tensor.Float32, tensor.Complex64:
		fs := unsafe.Slice((*uint32)(unsafe.Pointer(&raw[0])), len(raw)/4)
		for _, b := range fs {
			if b&0x7f800000 == 0x7f800000 && b&0x007fffff != 0 {
				b = 0x7fc00000
			}
			h = fnvU64(h, uint64(b))
		}
		return h
	case tensor.Float64, tensor.Complex128:
		fs := unsafe.Slice((*uint64)(unsafe.Pointer(&raw[0])), len(raw)/8)
		for _, b := range fs {
			if b&0x7ff0000000000000 == 0x7ff0000000000000 && b&0x000fffffffffffff != 0 {
				b = 0x7ff8000000000000
			}
			h = fnvU64(h, b)
		}
		return h
	}
	return fnvBytes(h, raw)
}

// FullSnap is the written-out form used in violation details and replay files.
type FullSnap struct {
	Dtype         string `json:"dtype"`
	Shape         []int  `json:"shape"`
	Strides       []int  `json:"strides"`
	Order         int    `json:"order"`
	Flag          int    `json:"flag"`
	View          bool   `json:"view"`
	OldShape      []int  `json:"old_shape,omitempty"`
	OldStrides    []int  `json:"old_strides,omitempty"`
	TransposeWith []int  `json:"transpose_with,omitempty"`
	Mask          []bool `json:"mask,omitempty"`
	MaskIsSoft    bool   `json:"mask_soft,omitempty"`
	Data          string `json:"data"`
}

func fullSnap(t *tensor.Dense) FullSnap {
	in := tensor.VerifInternals(t)
	fs := FullSnap{Shape: in.Shape, Strides: in.Strides, Order: int(in.DataOrder), Flag: int(in.Flag), View: in.ViewOf != 0,
		OldShape: in.OldShape, OldStrides: in.OldStrides, TransposeWith: in.TransposeWith, Mask: in.Mask, MaskIsSoft: in.MaskIsSoft}
	if t.Dtype().Type != nil {
		fs.Dtype = t.Dtype().String()
	}
	fs.Data = dataString(t)
	return fs
}

func dataString(t *tensor.Dense) (out string) {
	defer func() {
		if r := recover(); r != nil {
			out = fmt.Sprintf("<unprintable: %v>", r)
		}
	}()
	raw := tensor.VerifRaw(t)
	if len(raw) == 0 || t.Dtype().Type == nil {
		return "[]"
	}
	esz := int(t.Dtype().Size())
	n := len(raw) / esz
	if t.Dtype() == tensor.String {
		return fmt.Sprintf("%q", unsafeStrings(raw, n))
	}
	if isPointerDt(t.Dtype()) {
		return fmt.Sprintf("<%d pointer elements>", n)
	}
	sl := reflect.MakeSlice(reflect.SliceOf(t.Dtype().Type), n, n)
	for i := 0; i < n; i++ {
		sl.Index(i).Set(reflect.NewAt(t.Dtype().Type, unsafePtr(raw, i*esz)).Elem())
	}
	s := fmt.Sprintf("%v", sl.Interface())
	if len(s) > 600 {
		s = s[:600] + "..."
	}
	return s
}

func diffSnap(a, b Snap) string {
	out := ""
	if a.Meta != b.Meta {
		out += "meta(dtype/shape/strides/flags) "
	}
	if a.Hist != b.Hist {
		out += "saved-AP/transposeWith "
	}
	if a.Mask != b.Mask {
		out += "mask "
	}
	if a.Data != b.Data {
		out += "elements "
	}
	return out
}
