package main

// RNG is splitmix64. Every method is //go:norace because the scheduler consults it from
// client goroutines whose hand-off is deliberately invisible to the race detector.
type RNG struct{ s uint64 }

//go:norace
func (r *RNG) Next() uint64 {
	r.s += 0x9e3779b97f4a7c15
	z := r.s
	z = (z ^ (z >> 30)) * 0xbf58476d1ce4e5b9
	z = (z ^ (z >> 27)) * 0x94d049bb133111eb
	return z ^ (z >> 31)
}

//go:norace
func (r *RNG) Intn(n int) int {
	if n <= 1 {
		return 0
	}
	return int(r.Next() % uint64(n))
}

// Chance reports true with probability num/den.
//
//go:norace
func (r *RNG) Chance(num, den int) bool { return r.Intn(den) < num }

//go:norace
func (r *RNG) Fork(tag uint64) RNG {
	x := RNG{s: r.s ^ (tag+1)*0xd6e8feb86659fd93}
	x.Next()
	return RNG{s: x.Next()}
}

//go:norace
func mix(seed, tag uint64) uint64 {
	r := RNG{s: seed ^ tag*0xa0761d6478bd642f}
	r.Next()
	return r.Next()
}

// fnv-1a 64
const fnvOff = 14695981039346656037
const fnvPrime = 1099511628211

//go:norace
func fnvAdd(h uint64, b byte) uint64 { return (h ^ uint64(b)) * fnvPrime }

//go:norace
func fnvU64(h uint64, v uint64) uint64 {
	for i := 0; i < 8; i++ {
		h = (h ^ (v & 0xff)) * fnvPrime
		v >>= 8
	}
	return h
}

//go:norace
func fnvBytes(h uint64, b []byte) uint64 {
	for _, c := range b {
		h = (h ^ uint64(c)) * fnvPrime
	}
	return h
}

//go:norace
func fnvStr(h uint64, s string) uint64 {
	for i := 0; i < len(s); i++ {
		h = (h ^ uint64(s[i])) * fnvPrime
	}
	return fnvAdd(h, 0xff)
}
