#include "textflag.h"

// The hand-off word of the scheduler. It is read and written only from these two
// functions: assembly is not instrumented by the race detector, so passing the turn
// from one client goroutine to the next creates no happens-before edge that could
// hide a race between clients.

// func loadTurn(p *int64) int64
TEXT ·loadTurn(SB), NOSPLIT, $0-16
	MOVQ p+0(FP), AX
	MOVQ (AX), BX
	MOVQ BX, ret+8(FP)
	RET

// func storeTurn(p *int64, v int64)
TEXT ·storeTurn(SB), NOSPLIT, $0-16
	MOVQ p+0(FP), AX
	MOVQ v+8(FP), BX
	XCHGQ BX, (AX)
	RET
