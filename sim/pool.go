package main

import (
	"runtime"
	"sync"
	"time"
	"unsafe"

	"gorgonia.org/tensor"
)

// Simulated sync.Pool. The real pools are kept empty (the hook in ReturnInts/returnOpOpt/freeScalar
// swallows the Put after the library's own reset code ran), so every real Get() calls New, and New
// is PoolGet below. What a sync.Pool may legally do - hand back any item previously put, in any
// order, or a new one; forget items - is decided here from the tape.
//
// No maps and no growing slices in here: the runtime's map and growslice helpers carry their own
// race-detector annotations, and this code runs in client goroutines whose hand-off is invisible
// to the detector.

const (
	poolKinds     = 3
	maxClass      = 40
	freeCap       = 48
	objCap        = 2048
	poolPolicyLIF = 0
	poolPolicyFIF = 1
	poolPolicyRnd = 2
)

type freeEntry struct {
	v   interface{}
	ptr uintptr
	id  uint32
	by  int8 // client that put it
	tok *sync.Mutex
}

type freeList struct {
	n int
	e [freeCap]freeEntry
}

type objRec struct {
	ptr   uintptr
	id    uint32
	state uint8 // 1 handed out, 2 free
}

type PoolStats struct {
	Gets, Fresh, Recycled, CrossClient, Puts, Dropped uint64
	DoubleReturn, ForeignReturn, DupHandout           uint64
	EnvBorrow, EnvScribble, EnvReturn                 uint64
}

type SimPools struct {
	adversarial bool // false: reference world (always fresh, always drop)
	lists       [poolKinds][maxClass + 1]freeList
	objs        [objCap]objRec
	nobjs       int
	nextID      uint32
	rng         [maxClients]RNG
	recycleNum  int // recycle with probability recycleNum/8 when something is free
	dropDen     int // drop a put with probability 1/dropDen (0: never)
	policy      int
	advOn       [maxClients]bool // adversity enabled for the operation in flight of that client
	digest      uint64
	stats       PoolStats
	handedTwice uint64
	lastDouble  uint32 // kind<<8|class of the last double return
}

var P SimPools

func (p *SimPools) Reset(adversarial bool) {
	*p = SimPools{}
	p.adversarial = adversarial
	p.digest = fnvOff
	p.nextID = 1
}

// BeginOp keys all pool decisions of client c's next operation to the operation's adversity seed.
//
//go:norace
func (p *SimPools) BeginOp(c int, adv uint64) {
	p.rng[c] = RNG{s: adv}
	p.advOn[c] = adv != 0
}

func (p *SimPools) SetupRandom(r *RNG) {
	p.recycleNum = []int{8, 8, 7, 6, 4, 2}[r.Intn(6)]
	p.dropDen = []int{0, 0, 16, 8, 3}[r.Intn(5)]
	p.policy = r.Intn(3)
}

//go:norace
func dataPtr(kind int, v interface{}) uintptr {
	switch kind {
	case tensor.VerifPoolInts:
		s := v.([]int)
		if cap(s) == 0 {
			return 0
		}
		return uintptr(unsafe.Pointer(&s[:1][0]))
	case tensor.VerifPoolOpOpt:
		return uintptr(unsafe.Pointer(v.(*tensor.OpOpt)))
	case tensor.VerifPoolScalar:
		s := v.([]byte)
		if cap(s) == 0 {
			return 0
		}
		return uintptr(unsafe.Pointer(&s[:1][0]))
	}
	return 0
}

//go:norace
func (p *SimPools) findObj(ptr uintptr) int {
	for i := p.nobjs - 1; i >= 0; i-- {
		if p.objs[i].ptr == ptr {
			return i
		}
	}
	return -1
}

//go:norace
func (p *SimPools) addObj(ptr uintptr, state uint8) uint32 {
	id := p.nextID
	p.nextID++
	if ptr == 0 {
		return id
	}
	if p.nobjs == objCap {
		for i := 0; i < objCap/2; i++ {
			p.objs[i] = p.objs[i+objCap/2]
		}
		p.nobjs = objCap / 2
	}
	p.objs[p.nobjs] = objRec{ptr: ptr, id: id, state: state}
	p.nobjs++
	return id
}

//go:norace
func fresh(kind, class int) interface{} {
	switch kind {
	case tensor.VerifPoolInts:
		return make([]int, class)
	case tensor.VerifPoolOpOpt:
		return new(tensor.OpOpt)
	default:
		return make([]byte, class)
	}
}

//go:norace
func (p *SimPools) client() int {
	if S.active {
		return S.cur
	}
	return 0
}

// PoolGet is installed as tensor.VerifHooks.PoolGet.
//
//go:norace
func (p *SimPools) PoolGet(kind, class int) interface{} {
	p.stats.Gets++
	c := p.client()
	if !p.adversarial || !p.advOn[c] || class > maxClass || kind >= poolKinds {
		p.stats.Fresh++
		return fresh(kind, class)
	}
	fl := &p.lists[kind][class]
	dec := -1
	if fl.n > 0 && p.rng[c].Intn(8) < p.recycleNum {
		switch p.policy {
		case poolPolicyLIF:
			dec = fl.n - 1
		case poolPolicyFIF:
			dec = 0
		default:
			dec = p.rng[c].Intn(fl.n)
		}
	}
	if dec < 0 {
		p.stats.Fresh++
		v := fresh(kind, class)
		id := p.addObj(dataPtr(kind, v), 1)
		p.digest = fnvU64(p.digest, uint64(kind)<<56|uint64(class)<<48|uint64(id)<<8|1)
		return v
	}
	e := fl.e[dec]
	for i := dec; i < fl.n-1; i++ {
		fl.e[i] = fl.e[i+1]
	}
	fl.n--
	fl.e[fl.n] = freeEntry{}
	if e.tok != nil {
		// the Put -> Get edge a real sync.Pool provides, and nothing more
		e.tok.Lock()
		e.tok.Unlock()
	}
	p.stats.Recycled++
	if int(e.by) != c {
		p.stats.CrossClient++
	}
	if i := p.findObj(e.ptr); i >= 0 {
		if p.objs[i].state == 1 {
			p.stats.DupHandout++ // handed to a second owner while the first still has it
		}
		p.objs[i].state = 1
	}
	p.digest = fnvU64(p.digest, uint64(kind)<<56|uint64(class)<<48|uint64(e.id)<<8|2)
	return e.v
}

// PoolPut is installed as tensor.VerifHooks.PoolPut.
//
//go:norace
func (p *SimPools) PoolPut(kind, class int, v interface{}) {
	p.stats.Puts++
	c := p.client()
	if !p.adversarial || !p.advOn[c] || class > maxClass || kind >= poolKinds {
		p.stats.Dropped++
		return
	}
	ptr := dataPtr(kind, v)
	var id uint32
	if i := p.findObj(ptr); i >= 0 {
		id = p.objs[i].id
		if p.objs[i].state == 2 && ptr != 0 {
			p.stats.DoubleReturn++
			p.lastDouble = uint32(kind)<<8 | uint32(class)
		}
		p.objs[i].state = 2
	} else {
		if ptr != 0 {
			p.stats.ForeignReturn++ // never handed out by the pool (caller's slice, or an interior pointer)
		}
		id = p.addObj(ptr, 2)
	}
	drop := p.dropDen > 0 && p.rng[c].Intn(p.dropDen) == 0
	r := 0
	if drop {
		r = 1
	}
	p.digest = fnvU64(p.digest, uint64(kind)<<56|uint64(class)<<48|uint64(id)<<8|uint64(3+r))
	if drop {
		p.stats.Dropped++
		if i := p.findObj(ptr); i >= 0 {
			p.objs[i].state = 0
		}
		return
	}
	fl := &p.lists[kind][class]
	if fl.n == freeCap {
		// the oldest entry falls out of the free list: from here on the collector may free it and reuse its
		// address, so the ledger forgets it (state 2 must mean "is in a free list right now")
		if i := p.findObj(fl.e[0].ptr); i >= 0 && p.objs[i].state == 2 {
			p.objs[i].state = 0
		}
		for i := 0; i < fl.n-1; i++ {
			fl.e[i] = fl.e[i+1]
		}
		fl.n--
	}
	tok := new(sync.Mutex)
	tok.Lock()
	tok.Unlock()
	fl.e[fl.n] = freeEntry{v: v, ptr: ptr, id: id, by: int8(c), tok: tok}
	fl.n++
}

func (p *SimPools) Hooks() *tensor.VerifHooks {
	return &tensor.VerifHooks{
		PoolGet:   func(kind, class int) interface{} { return p.PoolGet(kind, class) },
		PoolPut:   func(kind, class int, v interface{}) { p.PoolPut(kind, class, v) },
		Finalizer: func(obj interface{}) { F[p.client()].Register(obj) },
	}
}

// ---------------------------------------------------------------------------------------------
// Finalizer registry: the simulator, not the garbage collector, decides when (and whether) the
// finalizer of a MultIterator runs once the harness has dropped it.

const finCap = 256

type Finalizers struct {
	n                          int
	objs                       [finCap]interface{}
	dropped                    [finCap]bool
	internal                   [finCap]bool // never handed to the program: considered unreachable once its operation has returned
	opStart                    int
	fired                      uint64
	never                      uint64
	internalFired, unconfirmed uint64
}

var F [maxClients]Finalizers

// confirmGC: before the finalizer of an object that the library created for its own use is run, the real
// garbage collector is asked whether the object is unreachable (it is, unless the library kept it somewhere).
// Off during exploration (fast, and true of the library as it stands); on whenever a violation is minimised,
// confirmed or replayed, so that no reported violation rests on a finalizer that a real collector could not
// have run.
var confirmGC bool

func resetFinalizers() {
	for i := range F {
		F[i].Reset()
	}
}

func (f *Finalizers) Reset() { *f = Finalizers{} }

//go:norace
func (f *Finalizers) Register(obj interface{}) {
	if f.n == finCap {
		f.never++ // registry full: this object's finalizer never runs (legal)
		return
	}
	f.objs[f.n] = obj
	f.dropped[f.n] = false
	f.internal[f.n] = false
	f.n++
}

// BeginOp makes room (fired entries go; when the registry is nearly full the oldest unreachable objects are
// forgotten - their finalizers never run, which is legal) and remembers where this operation's objects start.
//
//go:norace
func (f *Finalizers) BeginOp() {
	k := 0
	for i := 0; i < f.n; i++ {
		if f.objs[i] == nil {
			continue
		}
		f.objs[k], f.dropped[k], f.internal[k] = f.objs[i], f.dropped[i], f.internal[i]
		k++
	}
	for i := k; i < f.n; i++ {
		f.objs[i] = nil
	}
	f.n = k
	if f.n > finCap-48 {
		k = 0
		for i := 0; i < f.n; i++ {
			if f.dropped[i] && i < finCap/2 {
				f.never++
				continue
			}
			f.objs[k], f.dropped[k], f.internal[k] = f.objs[i], f.dropped[i], f.internal[i]
			k++
		}
		for i := k; i < f.n; i++ {
			f.objs[i] = nil
		}
		f.n = k
	}
	f.opStart = f.n
}

// EndOp: the objects registered during the operation that the program did not receive (held) are the
// library's own temporaries - iterators it made to walk an operand - and nothing refers to them any more.
//
//go:norace
func (f *Finalizers) EndOp(held []tensor.Iterator) {
	for i := f.opStart; i < f.n; i++ {
		if f.objs[i] == nil || f.dropped[i] {
			continue
		}
		keep := false
		for _, h := range held {
			if interface{}(h) == f.objs[i] {
				keep = true
			}
		}
		if !keep {
			f.dropped[i] = true
			f.internal[i] = true
		}
	}
	f.opStart = f.n
}

// Drop marks obj as unreachable for the program.
func (f *Finalizers) Drop(obj interface{}) {
	for i := 0; i < f.n; i++ {
		if f.objs[i] == obj {
			f.dropped[i] = true
		}
	}
}

var (
	gcMu  sync.Mutex
	gcGen uint64
	gcGot interface{}
)

// collectForReal drops the registry's reference to entry i and asks the real collector for the object; it comes
// back (through a real finalizer that does nothing but hand it over) only if nothing else refers to it.
func (f *Finalizers) collectForReal(i int) interface{} {
	gcMu.Lock()
	gcGen++
	gen := gcGen
	gcGot = nil
	gcMu.Unlock()
	runtime.SetFinalizer(f.objs[i], func(x interface{}) {
		gcMu.Lock()
		if gen == gcGen {
			gcGot = x
		}
		gcMu.Unlock()
	})
	f.objs[i] = nil
	for try := 0; try < 4; try++ {
		runtime.GC()
		time.Sleep(time.Duration(try+1) * time.Millisecond)
		gcMu.Lock()
		got := gcGot
		gcMu.Unlock()
		if got != nil {
			return got
		}
	}
	return nil
}

// FireSome runs the finalizers of some dropped objects, as the tape decides.
func (f *Finalizers) FireSome(r *RNG, num, den int) int {
	n := 0
	for i := 0; i < f.n; i++ {
		if f.dropped[i] && f.objs[i] != nil && r.Chance(num, den) {
			obj := f.objs[i]
			if f.internal[i] && confirmGC {
				obj = nil
				if obj = f.collectForReal(i); obj == nil {
					f.unconfirmed++ // still referenced from somewhere (or the collector was slow): not run, which is legal
					continue
				}
			}
			tensor.VerifRunFinalizer(obj)
			f.objs[i] = nil
			f.fired++
			if f.internal[i] {
				f.internalFired++
			}
			n++
		}
	}
	return n
}

// ---------------------------------------------------------------------------------------------
// Environment client: other code in the process that legally uses the exported
// BorrowInts/ReturnInts/BorrowBools/ReturnBools. If a live tensor still points at a slice that was
// given back to the pool, what this client writes shows up in that tensor.

type Env struct {
	ints    [][]int
	bools   [][]bool
	counter int
	st      PoolStats // this client's own counters (merged by the main goroutine afterwards)
}

func (e *Env) Reset() { *e = Env{} }

func (e *Env) Step(r *RNG) {
	st := &e.st
	switch r.Intn(6) {
	case 0, 1, 2:
		k := 1 + r.Intn(3)
		for i := 0; i < k; i++ {
			n := 1 + r.Intn(6)
			is := tensor.BorrowInts(n)
			st.EnvBorrow++
			for j := range is {
				e.counter++
				is[j] = 0x5A5A00 + e.counter%251
			}
			st.EnvScribble++
			e.ints = append(e.ints, is)
		}
	case 3:
		n := 1 + r.Intn(7)
		bs := tensor.BorrowBools(n)
		st.EnvBorrow++
		for j := range bs {
			bs[j] = true
		}
		e.bools = append(e.bools, bs)
	}
	for len(e.ints) > 0 && (len(e.ints) > 6 || r.Intn(3) == 0) {
		i := r.Intn(len(e.ints))
		tensor.ReturnInts(e.ints[i])
		st.EnvReturn++
		e.ints = append(e.ints[:i], e.ints[i+1:]...)
	}
	for len(e.bools) > 0 && (len(e.bools) > 3 || r.Intn(3) == 0) {
		tensor.ReturnBools(e.bools[0])
		st.EnvReturn++
		e.bools = e.bools[1:]
	}
}

func (e *Env) Flush() {
	for _, is := range e.ints {
		tensor.ReturnInts(is)
	}
	for _, bs := range e.bools {
		tensor.ReturnBools(bs)
	}
	e.ints, e.bools = nil, nil
}
