package main

import (
	"encoding/json"
	"flag"
	"fmt"
	"os"
	"path/filepath"
	"sort"
	"strings"
	"time"

	"gorgonia.org/tensor"
)

// tsim is the simulation worker. The driver (/verif/check) builds it against an instrumented scratch
// copy of /repo's working tree, starts many of them with disjoint run ranges, and merges their
// result files into the evidence file and the verdict lines.
//
//	tsim -prop C19 -seed S -first A -runs N -tier quick -out result.json -replaydir DIR
//	tsim -replay FILE            re-execute a replay file; exit 1 if the violation reproduces
//	tsim -prop C19 -digests ...  print one line "run digest" per run (determinism self-test)

type ReplayFile struct {
	Property  string      `json:"property"`
	Violation *Violation  `json:"violation"`
	Seed      uint64      `json:"seed"`
	Run       uint64      `json:"run"`
	Tags      string      `json:"tags"`
	Digest    string      `json:"digest,omitempty"`
	C19       *C19Case    `json:"c19,omitempty"`
	C18       *C18Case    `json:"c18,omitempty"`
	C14       *C14Case    `json:"c14,omitempty"`
	From      interface{} `json:"minimised_from,omitempty"`
	Count     int         `json:"count,omitempty"` // occurrences of this violation class in the worker (C14 keeps one representative per class)
}

type WorkerResult struct {
	Property   string                 `json:"property"`
	Seed       uint64                 `json:"seed"`
	First      uint64                 `json:"first"`
	Runs       uint64                 `json:"runs"`
	Done       uint64                 `json:"done"`
	WallS      float64                `json:"wall_s"`
	Violations []ReplayFile           `json:"violations"`
	Replays    []string               `json:"replays"`
	Stats      interface{}            `json:"stats"`
	Tags       string                 `json:"tags"`
	Race       bool                   `json:"race"`
	SitesHit   []uint32               `json:"sites_hit,omitempty"`
	Distinct   []uint64               `json:"distinct,omitempty"` // keys of the distinct non-trivial cases (capped)
	Sites      int                    `json:"sites"`
	Extra      map[string]interface{} `json:"extra,omitempty"`
}

var (
	flagProp      = flag.String("prop", "", "property id: C14, C18, C19")
	flagSeed      = flag.Uint64("seed", 1, "VERIF_SEED")
	flagFirst     = flag.Uint64("first", 0, "index of the first run")
	flagRuns      = flag.Uint64("runs", 100, "number of runs")
	flagTier      = flag.String("tier", "quick", "quick|thorough")
	flagOut       = flag.String("out", "", "result file")
	flagReplayDir = flag.String("replaydir", "", "directory for replay files")
	flagReplay    = flag.String("replay", "", "replay file to re-execute")
	flagReplayOut = flag.String("replayout", "", "with -replay: where to write the case as executed (schedule tape included) when it shows a violation")
	flagDigests   = flag.Bool("digests", false, "print per-run digests only")
	flagTags      = flag.String("tags", "verif", "build tags this binary was built with (informational)")
	flagSites     = flag.Int("sites", 50000, "number of yield sites")
	flagMaxViol   = flag.Int("maxviol", 12, "stop after this many violations")
	flagProgress  = flag.String("progress", "", "file to which the index of the run in flight is written")
	flagBudgetS   = flag.Float64("budget", 0, "stop starting new runs after this many seconds (0: none)")
	flagVerbose   = flag.Bool("v", false, "verbose")
	flagRaceLogP  = flag.String("racelog", "", "GORACE log_path prefix (race builds)")
	flagSiteFile  = flag.String("sitefile", "", "sites.tsv written by yieldgen (site id -> file:line), for messages")
)

func writeJSON(path string, v interface{}) error {
	b, err := json.MarshalIndent(v, "", " ")
	if err != nil {
		return err
	}
	return os.WriteFile(path, b, 0644)
}

func progress(run uint64) {
	if *flagProgress != "" {
		os.WriteFile(*flagProgress, []byte(fmt.Sprintf("%d\n", run)), 0644)
	}
}

var flagRaceLog string

func main() {
	flag.Parse()
	flagRaceLog = *flagRaceLogP
	loadSites(*flagSiteFile)
	tensor.VerifInstall(P.Hooks())
	tensor.VerifSetYield(func(site uint32) { S.Yield(site) }, func(site uint32) { S.Blocked(site) })
	S.Reset(*flagSites)

	if *flagReplay != "" {
		os.Exit(doReplay(*flagReplay))
	}
	start := time.Now()
	res := WorkerResult{Property: *flagProp, Seed: *flagSeed, First: *flagFirst, Runs: *flagRuns, Tags: *flagTags, Race: raceEnabled, Sites: *flagSites}
	switch *flagProp {
	case "C19":
		workC19(&res, start)
	case "C18":
		workC18(&res, start)
	case "C14":
		workC14(&res, start)
	default:
		fmt.Fprintln(os.Stderr, "tsim: unknown -prop")
		os.Exit(2)
	}
	res.WallS = time.Since(start).Seconds()
	if *flagOut != "" {
		if err := writeJSON(*flagOut, &res); err != nil {
			fmt.Fprintln(os.Stderr, "tsim:", err)
			os.Exit(2)
		}
	}
}

const distinctCap = 60000

func keysOf(m map[uint64]struct{}) []uint64 {
	ks := make([]uint64, 0, len(m))
	for k := range m {
		ks = append(ks, k)
	}
	sort.Slice(ks, func(i, j int) bool { return ks[i] < ks[j] })
	if len(ks) > distinctCap {
		ks = ks[:distinctCap]
	}
	return ks
}

func overBudget(start time.Time) bool {
	return *flagBudgetS > 0 && time.Since(start).Seconds() > *flagBudgetS
}

func saveReplay(rf *ReplayFile) string {
	if *flagReplayDir == "" {
		return ""
	}
	os.MkdirAll(*flagReplayDir, 0755)
	name := fmt.Sprintf("%s-%d-%d.json", rf.Property, rf.Seed, rf.Run)
	path := filepath.Join(*flagReplayDir, name)
	if err := writeJSON(path, rf); err != nil {
		fmt.Fprintln(os.Stderr, "tsim:", err)
		os.Exit(2)
	}
	return path
}

func workC19(res *WorkerResult, start time.Time) {
	st := newC19Stats()
	for i := uint64(0); i < *flagRuns; i++ {
		if overBudget(start) {
			break
		}
		run := *flagFirst + i
		progress(run)
		rs := mix(*flagSeed, run)
		r := RNG{s: rs}
		c := &C19Case{Seed: rs, Config: c19Config(&r, *flagTier)}
		c.Config.Tags = *flagTags
		v, dg := execC19(c, st)
		st.Programs++
		res.Done++
		if *flagDigests {
			fmt.Printf("%d %016x %v\n", run, dg, v != nil)
			continue
		}
		if v == nil {
			if P.stats.Recycled > 0 || P.stats.EnvScribble > 0 {
				st.NontrivialDigests[dg] = struct{}{}
			}
			if len(st.Samples) < 3 && len(c.Program) <= 12 {
				st.Samples = append(st.Samples, map[string]interface{}{"seed": rs, "config": c.Config, "program": c.Program})
			}
			continue
		}
		orig := map[string]int{"ops": len(c.Program)}
		if os.Getenv("VERIF_KEEP_RAW") != "" && *flagReplayDir != "" {
			os.MkdirAll(*flagReplayDir, 0755)
			writeJSON(filepath.Join(*flagReplayDir, fmt.Sprintf("raw-C19-%d-%d.json", *flagSeed, run)), &ReplayFile{Property: "C19", Violation: v, Seed: *flagSeed, Run: run, Tags: *flagTags, C19: c})
		}
		confirmGC = true // from here on finalizers of the library's own temporaries run only once the real collector agrees
		mc, mv := minimiseC19(c, v, 400)
		// replay check in-process: the minimised case must fail the same way twice
		cc := &C19Case{Seed: mc.Seed, Config: mc.Config, Program: append([]Op(nil), mc.Program...)}
		rv, _ := execC19(cc, nil)
		confirmGC = false
		if rv == nil || !rv.Same(mv) {
			// A mismatch that does not recur when the same program and seeds are executed again is not a
			// replayable violation and is not reported as one. Every instance analysed so far was the
			// library reading memory outside a tensor's window (results then depend on what the allocator
			// put next to it), never the harness; it is counted and the case is kept for diagnosis.
			st.Unreproducible++
			fmt.Fprintf(os.Stderr, "tsim: C19 run %d: mismatch did not recur on re-execution (%s at %s); counted, not reported\n", run, v.Kind, v.FailOp)
			if *flagReplayDir != "" {
				os.MkdirAll(*flagReplayDir, 0755)
				writeJSON(filepath.Join(*flagReplayDir, fmt.Sprintf("unreproducible-C19-%d-%d.json", *flagSeed, run)), &ReplayFile{Property: "C19", Violation: mv, Seed: *flagSeed, Run: run, Tags: *flagTags, C19: mc})
			}
			continue
		}
		rf := ReplayFile{Property: "C19", Violation: mv, Seed: *flagSeed, Run: run, Tags: *flagTags, C19: mc, From: orig}
		path := saveReplay(&rf)
		res.Violations = append(res.Violations, rf)
		res.Replays = append(res.Replays, path)
		if *flagVerbose {
			fmt.Fprintf(os.Stderr, "C19 run %d: %s at %s: %s\n", run, mv.Kind, mv.FailOp, mv.Detail)
		}
		if len(res.Violations) >= *flagMaxViol {
			break
		}
	}
	res.Stats = map[string]interface{}{
		"programs": st.Programs, "ops": st.Ops, "ops_ok": st.OpsOK, "ops_err": st.OpsErr, "ops_panic": st.OpsPanic,
		"families": st.Families, "op_names": st.OpNames, "op_ok": st.OpOK, "pool": st.Pool,
		"caller_scribbles": st.CallerScribbles, "finalizers_fired": st.FinalizersFired, "faults_fired": st.FaultsFired,
		"unterminated_reference_operations": st.Unterminated, "window_discipline_checks": st.WindowChecks, "programs_with_large_tensors": st.BigPrograms, "unreproducible_mismatches": st.Unreproducible, "dense_pool_full_runs": st.DenseFull, "dense_pool_rotations": st.DenseRotations,
		"distinct_nontrivial": len(st.NontrivialDigests), "samples": st.Samples,
	}
	res.Distinct = keysOf(st.NontrivialDigests)
}

func doReplay(path string) int {
	b, err := os.ReadFile(path)
	if err != nil {
		fmt.Fprintln(os.Stderr, "tsim:", err)
		return 2
	}
	var rf ReplayFile
	if err := json.Unmarshal(b, &rf); err != nil {
		fmt.Fprintln(os.Stderr, "tsim:", err)
		return 2
	}
	var v *Violation
	confirmGC = true
	switch {
	case rf.C19 != nil:
		if *flagVerbose {
			dumpC19(rf.C19)
		}
		v, _ = execC19(rf.C19, nil)
	case rf.C18 != nil:
		if rf.C18.ConcFirst && len(rf.C18.Tape) == 0 {
			// first execution of a concurrent-run-first case (spawned by a worker): the schedule is drawn here
			before := raceLogSize()
			v, _ = execC18(rf.C18, *flagTier, false, nil)
			if v == nil && raceLogSize() > before {
				if rep := raceLogTail(before); raceInLibrary(rep) {
					v = &Violation{Property: "C18", Kind: "race", Class: "race", FailOp: raceFuncs(rep), Detail: rep, Ops: allOpNames(rf.C18)}
				}
			}
		} else {
			v = replayC18(rf.C18)
		}
		if v != nil && *flagReplayOut != "" {
			writeJSON(*flagReplayOut, &ReplayFile{Property: "C18", Violation: v, Seed: rf.Seed, Run: rf.Run, Tags: rf.Tags, C18: rf.C18})
		}
	case rf.C14 != nil:
		v = replayC14(rf.C14)
	}
	if v == nil {
		fmt.Printf("REPLAY property=%s: no violation (did not reproduce)\n", rf.Property)
		return 0
	}
	same := rf.Violation != nil && v.Same(rf.Violation)
	fmt.Printf("REPLAY property=%s kind=%s fail_op=%s step=%d same_as_recorded=%v\n  %s\n", rf.Property, v.Kind, v.FailOp, v.Step, same, v.Detail)
	return 1
}

func loadSites(path string) {
	siteNames = map[uint32]string{}
	if path == "" {
		return
	}
	b, err := os.ReadFile(path)
	if err != nil {
		return
	}
	for _, ln := range strings.Split(string(b), "\n") {
		var id uint32
		var name string
		if n, _ := fmt.Sscanf(ln, "%d\t%s", &id, &name); n == 2 {
			siteNames[id] = name
			if strings.HasSuffix(ln, "\tS") {
				for int(id/64) >= len(syncBits) {
					syncBits = append(syncBits, 0)
				}
				syncBits[id/64] |= 1 << (id % 64)
			}
		}
	}
}
