package main

// implemented in turn_amd64.s
func loadTurn(p *int64) int64
func storeTurn(p *int64, v int64)
