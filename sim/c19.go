package main

import (
	"fmt"
	"os"
	"sort"
	"strings"
	"unsafe"

	"gorgonia.org/tensor"
)

// C19: no operation history corrupts another live tensor or the caller's slices.
//
// The same literal program is executed in two worlds inside one process:
//   reference world   - pools never recycle, nobody else uses the exported pool API, the caller
//                       never touches an argument slice again;
//   adversarial world - the simulated pools recycle under the seed, an environment client
//                       borrows/scribbles/returns, the caller overwrites the slices it passed once
//                       the call returned, the tensor pool is pre-filled / rotated.
// Oracles: frame + caller-slice (reference world, direct) and history independence (every
// operation outcome and every live tensor identical in both worlds after every step).

type C19Config struct {
	Len        int    `json:"len"`
	MaxLive    int    `json:"max_live"`
	RecycleNum int    `json:"recycle_num"`
	DropDen    int    `json:"drop_den"`
	Policy     int    `json:"policy"`
	DensePre   int    `json:"dense_prefill"`
	NoFault    bool   `json:"no_fault,omitempty"`
	Loose      bool   `json:"loose_return,omitempty"`
	Tags       string `json:"tags,omitempty"`
	Big        bool   `json:"big,omitempty"` // the program may hold tensors of up to 2^17 elements
}

type Violation struct {
	Property string   `json:"property"`
	Kind     string   `json:"kind"`
	Step     int      `json:"step"`
	FailOp   string   `json:"fail_op"`
	Detail   string   `json:"detail"`
	Class    string   `json:"class"` // coarse detail class used for known-finding matching
	Ops      []string `json:"ops"`   // distinct operation names of the (minimised) program
	// Ctx holds structured facts about the failing case that KNOWN_FINDINGS.json entries match on.
	Ctx map[string]interface{} `json:"ctx,omitempty"`
}

func (v *Violation) Same(o *Violation) bool {
	return o != nil && v.Kind == o.Kind && v.FailOp == o.FailOp && v.Class == o.Class
}

type stepRec struct {
	out   Outcome
	snaps []Snap // per slot (zero Snap for dead slots)
	live  []bool
	roots []int
}

type C19Stats struct {
	Programs, Ops, OpsOK, OpsErr, OpsPanic uint64
	Families                               map[string]uint64
	OpNames, OpOK                          map[string]uint64
	Pool                                   PoolStats
	CallerScribbles, FinalizersFired       uint64
	FaultsFired, DenseFull, DenseRotations uint64
	Unterminated, Unreproducible           uint64
	WindowChecks                           uint64
	BigPrograms                            uint64
	NontrivialDigests                      map[uint64]struct{}
	Samples                                []interface{}
}

func newC19Stats() *C19Stats {
	return &C19Stats{Families: map[string]uint64{}, OpNames: map[string]uint64{}, OpOK: map[string]uint64{}, NontrivialDigests: map[uint64]struct{}{}}
}

func resetGlobals(adv bool) {
	S.countOnly = true
	tensor.UsePool()
	tensor.VerifDrainChanPools()
	P.Reset(adv)
	resetFinalizers()
}

func snapWorld(w *World) ([]Snap, []bool, []int) {
	sn := make([]Snap, len(w.slots))
	lv := make([]bool, len(w.slots))
	for i, t := range w.slots {
		if t != nil {
			sn[i] = snapOf(t)
			lv[i] = true
		}
	}
	return sn, lv, w.roots()
}

// runRef executes (and, when prog is nil, generates) the program in the reference world.
func runRef(seed uint64, cfg *C19Config, prog []Op, st *C19Stats) ([]Op, []stepRec, *Violation) {
	setBig(cfg.Big)
	if cfg.Big && st != nil {
		st.BigPrograms++
	}
	resetGlobals(false)
	w := newWorld(false)
	w.eng = &FaultEng{st: &faultState{}}
	r := RNG{s: seed}
	var g *Gen
	n := len(prog)
	if prog == nil {
		g = &Gen{r: &r, w: w, maxLive: cfg.MaxLive, noFault: cfg.NoFault, loose: cfg.Loose, big: cfg.Big}
		n = cfg.Len
	}
	advr := r.Fork(0xadadad)
	recs := make([]stepRec, 0, n)
	preSn, preLv, preRoots := snapWorld(w)
	var out []Op
	for k := 0; k < n; k++ {
		var op Op
		if g != nil {
			op = g.Next()
			if advr.Intn(10) > 0 {
				op.Adv = advr.Next() | 1
			}
		} else {
			op = prog[k]
		}
		out = append(out, op)
		w.step = k
		prePtr := append([]*tensor.Dense(nil), w.slots...)
		preWin := captureWindows(w)
		o := w.Exec(&op)
		tensor.VerifDrainChanPools()
		if st != nil {
			st.Ops++
			st.Families[op.Fam]++
			st.OpNames[op.Name]++
			switch o.St {
			case stOK:
				st.OpsOK++
				st.OpOK[op.Name]++
			case stErr:
				st.OpsErr++
			case stPanic:
				st.OpsPanic++
			}
		}
		if o.St == stBudget {
			// An operation that does not terminate on its own, without any adversity, is outside C19's
			// statement (the one case met on the pinned tree: iterating a tensor with a zero-length axis
			// never reports exhaustion - an iterator defect, property C05). The program ends here; if the
			// operation terminates in the reference world but not in the adversarial one, the outcome
			// comparison reports it as history dependence.
			if st != nil {
				st.Unterminated++
			}
			out = out[:len(out)-1]
			return out, recs, nil
		}
		sn, lv, roots := snapWorld(w)
		recs = append(recs, stepRec{out: o, snaps: sn, live: lv, roots: roots})
		// oracle 3: caller's slices
		if d := w.checkArgs(); d != "" {
			return out, recs, &Violation{Property: "C19", Kind: "caller-slice", Step: k, FailOp: op.Name, Detail: d, Class: classOf(d)}
		}
		// oracle 2: frame
		dests := w.dests(&op)
		isDest := func(i int) bool {
			for _, d := range dests {
				if d == i {
					return true
				}
			}
			return false
		}
		sharesDest := func(i int) bool {
			for _, d := range dests {
				if d >= 0 && d < len(preRoots) && preRoots[d] >= 0 && preRoots[d] == preRoots[i] {
					return true
				}
				// pointer-identical slots are the same tensor
				if d >= 0 && d < len(prePtr) && prePtr[d] != nil && prePtr[d] == prePtr[i] {
					return true
				}
			}
			return false
		}
		for i := range preSn {
			if !preLv[i] || i >= len(w.slots) || w.slots[i] == nil || w.slots[i] != prePtr[i] {
				continue
			}
			samePtrAsDest := false
			for _, d := range dests {
				if d >= 0 && d < len(prePtr) && prePtr[d] == prePtr[i] {
					samePtrAsDest = true
				}
			}
			if isDest(i) || samePtrAsDest {
				continue
			}
			a, b := preSn[i], sn[i]
			if a.Meta != b.Meta || a.Hist != b.Hist {
				d := fmt.Sprintf("%s (slot %d, not a destination) changed its %s", op.Name, i, diffSnap(Snap{Meta: a.Meta, Hist: a.Hist}, Snap{Meta: b.Meta, Hist: b.Hist}))
				return out, recs, &Violation{Property: "C19", Kind: "frame", Step: k, FailOp: op.Name, Detail: d + "; now " + fmt.Sprintf("%+v", fullSnap(w.slots[i])), Class: "meta:" + diffSnap(Snap{Meta: a.Meta, Hist: a.Hist}, Snap{Meta: b.Meta, Hist: b.Hist})}
			}
			// (decoding into an existing tensor replaces the receiver's contents: tensors that shared
			// its storage are not destinations of that)
			if (a.Data != b.Data || a.Mask != b.Mask) && (!sharesDest(i) || op.Name == "DecodeInto") {
				d := fmt.Sprintf("%s changed the %sof slot %d, which is not a destination and shares no storage with one", op.Name, diffSnap(Snap{Data: a.Data, Mask: a.Mask}, Snap{Data: b.Data, Mask: b.Mask}), i)
				return out, recs, &Violation{Property: "C19", Kind: "frame", Step: k, FailOp: op.Name, Detail: d, Class: "data:" + diffSnap(Snap{Data: a.Data, Mask: a.Mask}, Snap{Data: b.Data, Mask: b.Mask})}
			}
			// window discipline: a tensor that shares a backing array with a destination may change, but only
			// in the elements the destination addresses (the documented sharing); what lies between or beside
			// the destination's elements belongs to the other tensor alone
			if a.Data != b.Data && op.Name != "DecodeInto" {
				if st != nil {
					st.WindowChecks++
				}
				if el, ok := outsideDestChanged(w, i, preWin, dests, false); ok {
					d := fmt.Sprintf("%s changed element %d (storage order) of slot %d, which is not a destination; the element shares a backing array with the destination but is not one of the elements the destination addresses", op.Name, el, i)
					return out, recs, &Violation{Property: "C19", Kind: "frame", Step: k, FailOp: op.Name, Detail: d, Class: "window:outside-destination"}
				}
			}
			if a.Mask != b.Mask && op.Name != "DecodeInto" {
				if el, ok := outsideDestChanged(w, i, preWin, dests, true); ok {
					d := fmt.Sprintf("%s changed mask entry %d (storage order) of slot %d, which is not a destination; the entry lies in a mask shared with the destination but does not belong to an element the destination addresses", op.Name, el, i)
					return out, recs, &Violation{Property: "C19", Kind: "frame", Step: k, FailOp: op.Name, Detail: d, Class: "window:mask-outside-destination"}
				}
			}
		}
		// oracle 2b: a new tensor never shares its shape or strides slice with another live tensor, and the
		// result of an operation that promises an independent tensor shares neither storage nor mask with one
		if o.St == stOK && op.Out >= 0 && op.Out < len(w.slots) {
			if d := aliasOfResult(w, &op, prePtr); d != "" {
				return out, recs, &Violation{Property: "C19", Kind: "frame", Step: k, FailOp: op.Name, Detail: d, Class: "alias:" + classOf(d)}
			}
		}
		preSn, preLv, preRoots = sn, lv, roots
	}
	if st != nil {
		st.FaultsFired += w.eng.st.fired
	}
	return out, recs, nil
}

// independentResult: operations whose result (without a reuse or unsafe option) is documented as a tensor of its own.
var independentResult = map[string]bool{"NewOpt": true, "SVD": true, "CSRDense": true, "DenseDiag": true, "SoftMax": true, "LogSoftMax": true, "SoftMaxB": true, "LogSoftMaxB": true, "SafeT": true, "PkgT": true, "Materialize": true, "PkgTranspose": true, "Clone": true, "Clamp": true, "Apply": true,
	"Reduce": true, "Sum": true, "Max": true, "Min": true, "PkgSum": true, "Norm": true, "Argmax": true, "Argmin": true,
	"MatVecMul": true, "MatMul": true, "Outer": true, "TensorMul": true, "Contract": true, "Dot": true,
	"Concat": true, "PkgConcat": true, "Stack": true, "Hstack": true, "Vstack": true, "Repeat": true, "PkgRepeat": true,
	"Gob": true, "Npy": true, "CSV": true, "PB": true, "FB": true, "Filled": true, "Diag": true}

func firstInt(s []int) uintptr {
	if cap(s) == 0 {
		return 0
	}
	return uintptr(unsafe.Pointer(&s[:1][0]))
}

func aliasOfResult(w *World, op *Op, prePtr []*tensor.Dense) string {
	res := w.slots[op.Out]
	if res == nil {
		return ""
	}
	for _, t := range prePtr {
		if t == res {
			return "" // the operation returned one of the tensors that existed before: not a new tensor
		}
	}
	indep := independentResult[op.Name]
	if _, ok := binFns[op.Name]; ok {
		indep = true
	}
	if _, ok := unFns[op.Name]; ok {
		indep = true
	}
	if op.Mode != "" && op.Mode != "same" {
		indep = false
	}
	if op.Name == "FromMat64" && (op.Mode == "" || op.Mode == "mixed") {
		indep = true // through a matrix that was a copy: the tensor shares with that matrix, never with the source
	}
	rs, rt := firstInt(res.Shape()), firstInt(res.Strides())
	rp, rn := rawOf(res)
	for i, t := range prePtr {
		if t == nil || i >= len(w.slots) || w.slots[i] != t {
			continue
		}
		if p := firstInt(t.Shape()); p != 0 && (p == rs || p == rt) {
			return fmt.Sprintf("%s returned a new tensor whose shape/strides slice is the shape slice of live slot %d", op.Name, i)
		}
		if p := firstInt(t.Strides()); p != 0 && (p == rs || p == rt) {
			return fmt.Sprintf("%s returned a new tensor whose shape/strides slice is the strides slice of live slot %d", op.Name, i)
		}
		if !indep {
			continue
		}
		if tp, tn := rawOf(t); rp != 0 && tp != 0 && rp < tp+uintptr(tn) && tp < rp+uintptr(rn) {
			return fmt.Sprintf("%s (no reuse or unsafe option) returned a new tensor that shares storage with live slot %d", op.Name, i)
		}
		if rm, tm := res.Mask(), t.Mask(); cap(rm) > 0 && cap(tm) > 0 && &rm[:1][0] == &tm[:1][0] {
			return fmt.Sprintf("%s (no reuse or unsafe option) returned a new tensor that shares its mask with live slot %d", op.Name, i)
		}
	}
	return ""
}

func classOf(d string) string {
	if i := strings.Index(d, " slice passed"); i >= 0 {
		return d[:i]
	}
	if len(d) > 40 {
		return d[:40]
	}
	return d
}

// runAdv re-executes the literal program in the adversarial world and compares with the reference.
func runAdv(seed uint64, cfg *C19Config, prog []Op, recs []stepRec, st *C19Stats) (*Violation, uint64) {
	setBig(cfg.Big)
	resetGlobals(true)
	P.recycleNum, P.dropDen, P.policy = cfg.RecycleNum, cfg.DropDen, cfg.Policy
	if cfg.DensePre > 0 {
		tensor.VerifFillDensePool(cfg.DensePre)
		if st != nil && cfg.DensePre >= tensor.PoolSize {
			st.DenseFull++
		}
	}
	w := newWorld(true)
	w.eng = &FaultEng{st: &faultState{}}
	var env Env
	digest := uint64(fnvOff)
	var viol *Violation
	for k := range prog {
		op := prog[k]
		w.step = k
		P.BeginOp(0, op.Adv)
		ledgerDR, ledgerDH := P.stats.DoubleReturn, P.stats.DupHandout
		o := w.Exec(&op)
		if P.stats.DoubleReturn > ledgerDR || P.stats.DupHandout > ledgerDH {
			// the invariant behind the whole property: what is in a free list is in it once, and is handed to one
			// owner at a time. (Exact: the ledger knows an object as "returned" only while a free list still holds
			// it, so its address cannot have been reused.)
			what := "gave the same object back to a pool twice without having borrowed it in between"
			if P.stats.DupHandout > ledgerDH {
				what = "was handed an object by a pool that another owner still holds (it is in the free list twice)"
			}
			kinds := [...]string{"ints", "OpOpt", "scalar buffer"}
			kd := "?"
			if k := int(P.lastDouble >> 8); k < len(kinds) {
				kd = fmt.Sprintf("%s pool, class %d", kinds[k], P.lastDouble&0xff)
			}
			viol = &Violation{Property: "C19", Kind: "pool-ledger", Step: k, FailOp: op.Name, Class: "double-return",
				Detail: fmt.Sprintf("%s %s (%s)", op.Name, what, kd)}
			break
		}
		if d := pooledButLive(w); d != "" {
			// the invariant of the free lists themselves: what is in one is not reachable from a live tensor
			viol = &Violation{Property: "C19", Kind: "pool-ledger", Step: k, FailOp: op.Name, Class: "pooled-but-live",
				Detail: fmt.Sprintf("after %s %s", op.Name, d)}
			break
		}
		if op.Adv != 0 {
			ar := RNG{s: op.Adv ^ 0x5eed}
			w.callerScribble()
			if ar.Intn(3) > 0 {
				env.Step(&ar)
			}
			if ar.Intn(6) == 0 {
				tensor.VerifRotateDensePool(1 + ar.Intn(5))
				if st != nil {
					st.DenseRotations++
				}
			}
		}
		P.BeginOp(0, 0)
		ref := recs[k]
		digest = fnvU64(fnvU64(digest, uint64(o.St)), o.H)
		if o != ref.out {
			d := fmt.Sprintf("operation outcome differs: reference world %s, adversarial world %s", outStr(ref.out), outStr(o))
			viol = &Violation{Property: "C19", Kind: "history-dependence", Step: k, FailOp: op.Name, Detail: d, Class: "outcome"}
			break
		}
		sn, lv, roots := snapWorld(w)
		for i := range sn {
			if i >= len(ref.live) || lv[i] != ref.live[i] {
				viol = &Violation{Property: "C19", Kind: "history-dependence", Step: k, FailOp: op.Name, Detail: fmt.Sprintf("slot %d liveness differs between worlds", i), Class: "liveness"}
				break
			}
			if !lv[i] {
				continue
			}
			digest = fnvU64(digest, sn[i].All())
			if sn[i] != ref.snaps[i] {
				g := diffSnap(ref.snaps[i], sn[i])
				viol = &Violation{Property: "C19", Kind: "history-dependence", Step: k, FailOp: op.Name,
					Detail: fmt.Sprintf("after %s (step %d) live tensor in slot %d differs from the reference world in its %s; adversarial world has %+v", op.Name, k, i, g, fullSnap(w.slots[i])),
					Class:  "tensor:" + g}
				break
			}
			if roots[i] != ref.roots[i] {
				viol = &Violation{Property: "C19", Kind: "history-dependence", Step: k, FailOp: op.Name,
					Detail: fmt.Sprintf("after %s slot %d shares storage with slot %d in the adversarial world but with slot %d in the reference world", op.Name, i, roots[i], ref.roots[i]), Class: "aliasing"}
				break
			}
		}
		if viol != nil {
			break
		}
	}
	env.Flush()
	if st != nil {
		st.CallerScribbles += w.scribN
		st.FaultsFired += w.eng.st.fired
		for c := range F {
			st.FinalizersFired += F[c].fired
		}
		addPoolStats(&st.Pool, &P.stats)
		addPoolStats(&st.Pool, &env.st)
	}
	digest = fnvU64(digest, P.digest)
	return viol, digest
}

func addPoolStats(a, b *PoolStats) {
	a.Gets += b.Gets
	a.Fresh += b.Fresh
	a.Recycled += b.Recycled
	a.CrossClient += b.CrossClient
	a.Puts += b.Puts
	a.Dropped += b.Dropped
	a.DoubleReturn += b.DoubleReturn
	a.ForeignReturn += b.ForeignReturn
	a.DupHandout += b.DupHandout
	a.EnvBorrow += b.EnvBorrow
	a.EnvScribble += b.EnvScribble
	a.EnvReturn += b.EnvReturn
}

func outStr(o Outcome) string {
	return fmt.Sprintf("%s/%016x", []string{"ok", "error", "panic", "skipped", "deadlock", "no-termination"}[o.St], o.H)
}

func c19Config(r *RNG, tier string) C19Config {
	cfg := C19Config{}
	lens := []int{5, 8, 12, 20, 30, 50, 80, 120, 200}
	if tier == "quick" {
		lens = []int{5, 8, 12, 20, 30, 50, 80}
	}
	cfg.Len = lens[r.Intn(len(lens))]
	cfg.MaxLive = 2 + r.Intn(7)
	cfg.RecycleNum = []int{8, 8, 8, 7, 6, 4}[r.Intn(6)]
	cfg.DropDen = []int{0, 0, 0, 16, 8, 3}[r.Intn(6)]
	cfg.Policy = r.Intn(3)
	switch r.Intn(10) {
	case 0:
		cfg.DensePre = tensor.PoolSize
	case 1:
		cfg.DensePre = tensor.PoolSize - 1
	case 2, 3:
		cfg.DensePre = 1 + r.Intn(6)
	}
	cfg.NoFault = r.Intn(3) > 0 // fault-free and fault-injecting configurations are separate runs
	if r.Intn(50) == 0 || os.Getenv("VERIF_FORCE_BIG") != "" {
		// a short program over a few tensors, some of them large: code that switches strategy at a size
		// (bulk copies, scratch buffers, chunked kernels) is only entered by those
		cfg.Big = true
		if cfg.Len > 10 {
			cfg.Len = 4 + r.Intn(7)
		}
		if cfg.MaxLive > 4 {
			cfg.MaxLive = 2 + r.Intn(3)
		}
	}
	return cfg
}

// C19Case is everything needed to re-execute one run: the replay file body.
type C19Case struct {
	Seed    uint64    `json:"seed"`
	Config  C19Config `json:"config"`
	Program []Op      `json:"program"`
}

// execC19 runs one case in both worlds. With c.Program == nil the program is generated from the seed.
func execC19(c *C19Case, st *C19Stats) (*Violation, uint64) {
	prog, recs, v := runRef(c.Seed, &c.Config, c.Program, st)
	c.Program = prog
	if v != nil {
		v.Ops = opNames(prog[:v.Step+1])
		return v, 0
	}
	v, dg := runAdv(c.Seed, &c.Config, prog, recs, st)
	if v != nil {
		v.Ops = opNames(prog[:v.Step+1])
	}
	return v, dg
}

func opNames(p []Op) []string {
	m := map[string]bool{}
	for _, o := range p {
		m[o.Name] = true
	}
	var l []string
	for k := range m {
		l = append(l, k)
	}
	sort.Strings(l)
	return l
}

// minimiseC19 shrinks a failing case while the same (kind, failing op, class) persists.
func minimiseC19(c *C19Case, v *Violation, budget int) (*C19Case, *Violation) {
	best := &C19Case{Seed: c.Seed, Config: c.Config, Program: append([]Op(nil), c.Program[:v.Step+1]...)}
	bv := v
	try := func(p []Op) bool {
		if budget <= 0 {
			return false
		}
		budget--
		cand := &C19Case{Seed: c.Seed, Config: c.Config, Program: append([]Op(nil), p...)}
		nv, _ := execC19(cand, nil)
		if nv != nil && nv.Kind == bv.Kind && nv.FailOp == bv.FailOp && nv.Class == bv.Class {
			cand.Program = cand.Program[:nv.Step+1]
			best, bv = cand, nv
			return true
		}
		return false
	}
	// 1. drop chunks of operations (ddmin style); an operation whose operand slot died is skipped at run time
	for chunk := len(best.Program) / 2; chunk >= 1; chunk /= 2 {
		for i := 0; i+chunk <= len(best.Program)-1 && budget > 0; {
			p := append(append([]Op(nil), best.Program[:i]...), best.Program[i+chunk:]...)
			if !try(p) {
				i += chunk
			}
		}
	}
	// 1b. single operations again, until nothing more can be removed
	for changed := true; changed && budget > 0; {
		changed = false
		for i := 0; i < len(best.Program)-1 && budget > 0; i++ {
			p := append(append([]Op(nil), best.Program[:i]...), best.Program[i+1:]...)
			if try(p) {
				changed = true
				i--
			}
		}
	}
	// 2. remove adversity from single operations
	for i := 0; i < len(best.Program) && budget > 0; i++ {
		if best.Program[i].Adv == 0 {
			continue
		}
		p := append([]Op(nil), best.Program...)
		p[i].Adv = 0
		try(p)
	}
	// 3. simpler configuration
	if best.Config.DensePre != 0 && budget > 0 {
		cc := *best
		cc.Config.DensePre = 0
		nv, _ := execC19(&cc, nil)
		budget--
		if nv != nil && nv.Same(bv) {
			best, bv = &cc, nv
		}
	}
	bv.Ops = opNames(best.Program)
	return best, bv
}

// dumpC19 prints, for triage, the result of every step in both worlds.
func dumpC19(c *C19Case) {
	for _, adv := range []bool{false, true} {
		resetGlobals(adv)
		P.recycleNum, P.dropDen, P.policy = c.Config.RecycleNum, c.Config.DropDen, c.Config.Policy
		if adv && c.Config.DensePre > 0 {
			tensor.VerifFillDensePool(c.Config.DensePre)
		}
		w := newWorld(adv)
		w.eng = &FaultEng{st: &faultState{}}
		var env Env
		fmt.Printf("---- world adversarial=%v\n", adv)
		for k := range c.Program {
			op := c.Program[k]
			w.step = k
			if adv {
				P.BeginOp(0, op.Adv)
			}
			o := w.Exec(&op)
			if adv && op.Adv != 0 {
				ar := RNG{s: op.Adv ^ 0x5eed}
				w.callerScribble()
				if ar.Intn(3) > 0 {
					env.Step(&ar)
				}
				if ar.Intn(6) == 0 {
					tensor.VerifRotateDensePool(1 + ar.Intn(5))
				}
			}
			P.BeginOp(0, 0)
			if !adv {
				tensor.VerifDrainChanPools()
			}
			fmt.Printf("step %d %s -> %s %s\n", k, op.Name, outStr(o), w.lastErr)
			if t := w.get(op.Out); t != nil && o.St == stOK {
				fmt.Printf("      out[%d] = %+v\n", op.Out, fullSnap(t))
			}
			w.lastErr = ""
		}
		env.Flush()
	}
}

// winRec is what the window oracle remembers of a live tensor before an operation.
type winRec struct {
	ptr            uintptr
	raw            []byte
	shape, strides []int
	esz            int
	mptr           uintptr // the mask runs parallel to the window: mask[k] belongs to element k in storage order
	mask           []bool
	view           bool // a view shares only the elements it addresses; any other tensor owns its whole window
}

func captureWindows(w *World) []winRec {
	r := make([]winRec, len(w.slots))
	for i, t := range w.slots {
		if t == nil || t.Dtype().Type == nil {
			continue
		}
		raw := tensor.VerifRaw(t)
		if len(raw) == 0 {
			continue
		}
		in := tensor.VerifInternals(t)
		r[i] = winRec{ptr: in.RawPtr, raw: append([]byte(nil), raw...), shape: in.Shape, strides: in.Strides, esz: int(t.Dtype().Size()), view: t.IsView()}
		if m := t.Mask(); len(m) > 0 {
			r[i].mptr = uintptr(unsafe.Pointer(&m[0]))
			r[i].mask = append([]bool(nil), m...)
		}
	}
	return r
}

// addressed calls f with the byte offset (relative to the window start) of every element an access pattern reaches.
// It reports false when it cannot interpret the access pattern (then nothing was visited).
func addressed(shape, strides []int, f func(off int)) bool {
	if len(shape) != len(strides) {
		// the library's vector convention: (n,1) and (1,n) carry one stride, that of the long axis
		if len(strides) != 1 {
			return false
		}
		long, n := 0, 1
		for _, d := range shape {
			if d > 1 {
				long++
				n = d
			} else if d != 1 {
				return false
			}
		}
		if long > 1 {
			return false
		}
		shape, strides = []int{n}, strides[:1]
	}
	n := 1
	for _, d := range shape {
		if d <= 0 {
			return false
		}
		n *= d
		if n > 1<<17 {
			return false
		}
	}
	idx := make([]int, len(shape))
	for k := 0; k < n; k++ {
		off := 0
		for j := range idx {
			off += idx[j] * strides[j]
		}
		f(off)
		for j := len(idx) - 1; j >= 0; j-- {
			idx[j]++
			if idx[j] < shape[j] {
				break
			}
			idx[j] = 0
		}
	}
	return true
}

// outsideDestChanged reports an element of slot i (in storage order within its window) that changed although no
// destination addresses it, through the access pattern it had before the operation (an operation that gives its destination another access pattern - Reshape, T, a reuse tensor reshaped to the result's shape - reaches the same elements; one that gives it other storage - SliceInto, DecodeInto - writes no elements of other tensors).
// mask=true does the same for mask entries.
func outsideDestChanged(w *World, i int, pre []winRec, dests []int, mask bool) (int, bool) {
	p := pre[i]
	t := w.slots[i]
	if p.raw == nil || t == nil {
		return 0, false
	}
	now := tensor.VerifRaw(t)
	if len(now) != len(p.raw) || p.esz == 0 {
		return 0, false
	}
	var nowMask []bool
	if mask {
		nowMask = t.Mask()
		if len(p.mask) == 0 || len(nowMask) != len(p.mask) || uintptr(unsafe.Pointer(&nowMask[0])) != p.mptr {
			return 0, false // the tensor got another mask slice: not a write through shared storage
		}
	}
	allowed := map[uintptr]bool{}
	understood := true
	mark := func(ptr uintptr, shape, strides []int, esz int) {
		if !addressed(shape, strides, func(off int) {
			for b := 0; b < esz; b++ {
				allowed[ptr+uintptr(off*esz+b)] = true
			}
		}) {
			understood = false
		}
	}
	for _, d := range dests {
		if d < 0 || d >= len(w.slots) {
			continue
		}
		if d >= len(pre) || pre[d].raw == nil {
			continue
		}
		if !pre[d].view {
			// not a view: the destination owns its window (and its mask) whole - tensors cut from it, or shallow
			// clones of it, share all of it ("the documented sharing of a backing array"), also what its own
			// access pattern happens not to reach (a clone of a non-contiguous view keeps the view's layout)
			if mask {
				if len(pre[d].mask) > 0 {
					mark(pre[d].mptr, []int{len(pre[d].mask)}, []int{1}, 1)
				}
			} else {
				mark(pre[d].ptr, []int{len(pre[d].raw)}, []int{1}, 1)
			}
			continue
		}
		if mask {
			if pre[d].mask != nil {
				mark(pre[d].mptr, pre[d].shape, pre[d].strides, 1)
			}
			continue
		}
		mark(pre[d].ptr, pre[d].shape, pre[d].strides, pre[d].esz)

	}
	if !understood {
		return 0, false // a destination whose access pattern this oracle cannot interpret excuses everything
	}
	bad, found := 0, false
	addressed(p.shape, p.strides, func(off int) {
		if found || off < 0 {
			return
		}
		if mask {
			if off >= len(nowMask) || nowMask[off] == p.mask[off] {
				return
			}
			if !allowed[p.mptr+uintptr(off)] {
				bad, found = off, true
			}
			return
		}
		if (off+1)*p.esz > len(now) {
			return
		}
		lo := off * p.esz
		same := true
		for b := 0; b < p.esz; b++ {
			if now[lo+b] != p.raw[lo+b] {
				same = false
				break
			}
		}
		if same {
			return
		}
		for b := 0; b < p.esz; b++ {
			if !allowed[p.ptr+uintptr(lo+b)] {
				bad, found = off, true
				return
			}
		}
	})
	return bad, found
}

// pooledButLive looks for a []int that sits in a free list of the ints pool while a live tensor uses the same array as
// its shape or strides (also with length 0: a scalar's access pattern keeps the capacity it was given).
func pooledButLive(w *World) string {
	for class := range P.lists[tensor.VerifPoolInts] {
		fl := &P.lists[tensor.VerifPoolInts][class]
		for k := 0; k < fl.n; k++ {
			p := fl.e[k].ptr
			if p == 0 {
				continue
			}
			for i, t := range w.slots {
				if t == nil {
					continue
				}
				if firstInt(t.Shape()) == p {
					return fmt.Sprintf("a slice of capacity %d in the ints pool is the shape slice of live slot %d", class, i)
				}
				if firstInt(t.Strides()) == p {
					return fmt.Sprintf("a slice of capacity %d in the ints pool is the strides slice of live slot %d", class, i)
				}
			}
		}
	}
	return ""
}
