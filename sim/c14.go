package main

import (
	"bytes"
	"encoding/gob"
	"fmt"
	"io"
	"math"
	"os"
	"reflect"
	"regexp"
	"runtime"
	"strings"
	"time"

	"gorgonia.org/tensor"
)

// C14: serialisation round-trips the logical tensor - under every legal delivery of the stream.
//
// The encoder (WriteNpy / WriteCSV / gob.Encoder) and the decoder (ReadNpy / ReadCSV / gob.Decoder)
// run as two clients of the scheduler, connected by a simulated pipe with a small bounded buffer:
// a full pipe parks the writer, an empty one parks the reader, every Read returns a seed-chosen number
// of bytes (short reads, zero-byte reads, EOF together with or after the last bytes). PB, FB and
// GobEncode/GobDecode work on []byte and are the degenerate case without a pipe.
// Verdict: refused (encoder error) or equal (the complete stream decodes to the source's logical
// content). Injected stream faults (producer crash, sink/source errors) are probe-only.

type C14Case struct {
	Seed     uint64   `json:"seed"`
	Format   string   `json:"format"` // gob, gobbytes, npy, csv, pb, fb
	Build    []Op     `json:"build"`  // operations that build the source tensor; the last tensor result is the source
	Src      int      `json:"src"`
	PipeCap  int      `json:"pipe_cap"`
	MaxChunk int      `json:"max_chunk"` // 0: as much as available
	ZeroRead int      `json:"zero_read_den"`
	EOFWith  bool     `json:"eof_with_data"`
	Deliver  uint64   `json:"delivery_seed"`
	Direct   bool     `json:"direct,omitempty"` // no pipe: bytes.Buffer (the delivery the test-suite uses)
	Fault    string   `json:"fault,omitempty"`  // probe-only: crash@N, werr@N, rerr@N
	FaultAt  int      `json:"fault_at,omitempty"`
	Tape     []Switch `json:"tape,omitempty"`
	Layout   string   `json:"layout,omitempty"`
	// Build2 builds a second tensor of the same element type and shape with other values: byte formats encode it
	// between encoding and decoding the source ("the caller keeps the first result while encoding something else")
	Build2 []Op `json:"build2,omitempty"`
	// Multi: the stream carries a second tensor and then the source (gob: on one encoder/decoder pair; npy: two arrays
	// written one after the other, as numpy itself does with repeated np.save on one file).
	Multi bool `json:"multi,omitempty"`
	// Huge: a source of 4097..80000 elements (direct decode only); the step budgets are scaled.
	Huge bool `json:"huge,omitempty"`
	// UsedDst: the source is decoded into a receiver that already holds the second tensor (masked,
	// lazily transposed) instead of a fresh one.
	UsedDst bool `json:"used_dst,omitempty"`
	// RecvMode (UsedDst only): bit 0 - the receiver is a column-major tensor; bit 1 - it is not lazily transposed (column-major receivers never are).
	// (A decoder that recomputes or keeps anything of what the receiver was - its data order flag, say - shows here.)
	RecvMode int `json:"recv_mode,omitempty"`
}

// ------------------------------------------------------------------------------------------------
// the simulated pipe

type simPipe struct {
	buf      []byte
	capacity int
	closed   bool // writer finished (clean EOF after the buffered bytes)
	rng      RNG
	maxChunk int
	zeroDen  int
	eofWith  bool
	lastZero bool
	// faults (probe only)
	werrAt, rerrAt int // byte offsets, -1: none
	written, read  int
	// measurements
	reads, shortReads, zeroReads, eofWithData, writerParked, readerParked int
	sig                                                                   uint64
	encHash                                                               uint64
}

type injectedIOErr struct{ what string }

func (e injectedIOErr) Error() string { return "injected " + e.what }

//go:norace
func (p *simPipe) Write(b []byte) (int, error) {
	n := 0
	for n < len(b) {
		if p.werrAt >= 0 && p.written >= p.werrAt {
			return n, injectedIOErr{"sink error"}
		}
		for len(p.buf) >= p.capacity {
			if S.done[1] {
				// the reader has returned (it stopped early): nobody will ever drain the pipe;
				// a real pipe would now fail or discard - discard, the verdict is the reader's
				p.buf = p.buf[:0]
				break
			}
			p.writerParked++
			S.Blocked(0)
		}
		room := p.capacity - len(p.buf)
		k := len(b) - n
		if k > room {
			k = room
		}
		if p.werrAt >= 0 && p.written+k > p.werrAt {
			k = p.werrAt - p.written
		}
		for i := 0; i < k; i++ {
			p.buf = append(p.buf, b[n+i])
			p.encHash = fnvAdd(p.encHash, b[n+i])
		}
		n += k
		p.written += k
		S.Boundary()
	}
	return n, nil
}

//go:norace
func (p *simPipe) Read(b []byte) (int, error) {
	p.reads++
	if len(b) == 0 {
		return 0, nil
	}
	if p.rerrAt >= 0 && p.read >= p.rerrAt {
		return 0, injectedIOErr{"source error"}
	}
	for len(p.buf) == 0 {
		if p.closed {
			return 0, io.EOF
		}
		p.readerParked++
		S.Blocked(0)
	}
	if p.zeroDen > 0 && !p.lastZero && p.rng.Intn(p.zeroDen) == 0 {
		p.lastZero = true
		p.zeroReads++
		p.sig = fnvU64(p.sig, 0)
		return 0, nil
	}
	p.lastZero = false
	k := len(b)
	if k > len(p.buf) {
		k = len(p.buf)
	}
	if p.maxChunk > 0 {
		c := 1 + p.rng.Intn(p.maxChunk)
		if k > c {
			k = c
		}
	}
	if p.rerrAt >= 0 && p.read+k > p.rerrAt {
		k = p.rerrAt - p.read
	}
	if k < len(b) {
		p.shortReads++
	}
	for i := 0; i < k; i++ {
		b[i] = p.buf[i]
	}
	rest := len(p.buf) - k
	for i := 0; i < rest; i++ {
		p.buf[i] = p.buf[k+i]
	}
	p.buf = p.buf[:rest]
	p.read += k
	p.sig = fnvU64(p.sig, uint64(k))
	if rest == 0 && p.closed && p.eofWith {
		p.eofWithData++
		return k, io.EOF
	}
	S.Boundary()
	return k, nil
}

// ------------------------------------------------------------------------------------------------

var c14Formats = []string{"gob", "gobbytes", "npy", "csv", "pb", "fb"}
var npyDts = []string{"int", "int8", "int16", "int32", "int64", "uint", "uint8", "uint16", "uint32", "uint64", "float32", "float64", "complex64", "complex128"}
var csvDts = []string{"int", "int8", "int16", "int32", "int64", "uint", "uint8", "uint16", "uint32", "uint64", "float32", "float64", "string"}

func genC14(seed uint64) *C14Case {
	r := RNG{s: seed}
	cs := &C14Case{Seed: seed, Format: c14Formats[r.Intn(len(c14Formats))]}
	setBig(false)
	w := newWorld(false)
	g := &Gen{r: &r, w: w, maxLive: 8, noFault: true}
	var dt string
	var sh []int
	switch cs.Format {
	case "npy":
		dt = npyDts[r.Intn(len(npyDts))]
		sh = g.pickShape(4)
	case "csv":
		dt = csvDts[r.Intn(len(csvDts))]
		sh = g.pickShape(2)
		if len(sh) == 0 {
			sh = []int{1 + r.Intn(4)}
		}
	default:
		dt = dtNames[r.Intn(len(dtNames))]
		sh = g.pickShape(4)
	}
	if r.Intn(12) == 0 && len(sh) > 0 {
		// now and then a stream that is longer than the usual buffer sizes (bufio's 4096 bytes, gob's
		// and csv's internal buffers): a contiguous vector or matrix of 600-1500 elements
		n := 600 + r.Intn(900)
		if len(sh) == 1 || cs.Format == "csv" && r.Intn(2) == 0 {
			sh = []int{n}
			if cs.Format == "csv" {
				sh = []int{n / 8, 8}
			}
		} else {
			sh = []int{n / 25, 25}
		}
	}
	huge := false
	if (r.Intn(1000) == 0 || os.Getenv("VERIF_FORCE_BIG") != "") && len(sh) > 0 && dt != "string" {
		// rarely a tensor beyond every small-tensor fast path (bulk writes, scratch buffers): decoded directly, no pipe
		huge = true
		sh = [][]int{{65536}, {70000}, {256, 300}, {300, 256}, {4097}, {2, 40000}}[r.Intn(6)]
		if cs.Format == "csv" && len(sh) == 1 {
			sh = []int{sh[0] / 16, 16}
		}
		setBig(true)
	}
	op := g.opNew(dt, sh)
	op.N &^= 4
	if op.Mode == "of" {
		op.Mode = "row"
	}
	if r.Intn(4) == 0 {
		op.F = float64(1000 + r.Intn(500))
	}
	if huge {
		// plain storage layouts, no mask: what a bulk path would take
		op.Mode = []string{"row", "col", "colraw", "rowspare"}[r.Intn(4)]
		op.N = 0
	}
	cs.Layout = op.Mode
	w.Exec(&op)
	cs.Build = append(cs.Build, op)
	cs.Src = op.Out
	src := w.get(cs.Src)
	if src != nil && src.Dims() > 0 {
		switch r.Intn(8) {
		case 0: // lazily transposed
			o := Op{Name: "T", In: []int{cs.Src}, Out: -1}
			if src.Dims() > 2 && r.Intn(2) == 0 {
				o.I = g.perm(src.Dims())
			}
			w.Exec(&o)
			cs.Build = append(cs.Build, o)
			cs.Layout += "+T"
		case 1: // physically transposed
			o := Op{Name: "T", In: []int{cs.Src}, Out: -1}
			w.Exec(&o)
			o2 := Op{Name: "Transpose", In: []int{cs.Src}, Out: -1}
			w.Exec(&o2)
			cs.Build = append(cs.Build, o, o2)
			cs.Layout += "+Transpose"
		case 2, 3: // sliced
			o := Op{Name: "Slice", In: []int{cs.Src}, I: g.sliceEnc(src), Out: g.newSlot()}
			w.Exec(&o)
			if w.get(o.Out) != nil {
				cs.Build = append(cs.Build, o)
				cs.Src = o.Out
				cs.Layout += "+slice"
			}
		case 4: // slice of transpose
			o := Op{Name: "T", In: []int{cs.Src}, Out: -1}
			w.Exec(&o)
			if w.get(cs.Src) == nil {
				if os.Getenv("VERIF_DEBUG_GEN") != "" {
					fmt.Fprintln(os.Stderr, "genC14: T refused:", w.lastErr, cs.Build)
				}
				return genC14(seed*0x9e3779b97f4a7c15 + 1) // the transposition was refused and its operand retired
			}
			o2 := Op{Name: "Slice", In: []int{cs.Src}, I: g.sliceEnc(w.get(cs.Src)), Out: g.newSlot()}
			w.Exec(&o2)
			cs.Build = append(cs.Build, o)
			cs.Layout += "+T"
			if w.get(o2.Out) != nil {
				cs.Build = append(cs.Build, o2)
				cs.Src = o2.Out
				cs.Layout += "+slice"
			}
		}
	}
	if w.get(cs.Src) == nil {
		return genC14(seed*0x9e3779b97f4a7c15 + 1)
	}
	if s := w.get(cs.Src); (s.IsView() || tensor.VerifInternals(s).HasOld) && r.Intn(5) == 0 {
		// a clone of a view or of a lazily transposed tensor: a tensor of its own that keeps the source's layout
		// (strides with gaps over a private copy of the window, or permuted strides with the saved access pattern)
		o := Op{Name: "Clone", In: []int{cs.Src}, Out: g.newSlot()}
		w.Exec(&o)
		if w.get(o.Out) != nil {
			cs.Build = append(cs.Build, o)
			cs.Src = o.Out
			cs.Layout += "+clone"
		}
	}
	b2 := cs.Build[0]
	b2.F = float64(int(b2.F)%900 + 3)
	b2.Out = 900
	if b2.Mode != "scalar" {
		b2.Mode = "row"
	}
	b2.N = 0
	cs.Build2 = []Op{b2}
	cs.Multi = (cs.Format == "gob" && r.Intn(3) == 0) || (cs.Format == "npy" && r.Intn(4) == 0 && dt != "int64" && dt != "uint64")
	cs.UsedDst = r.Intn(5) == 0
	if cs.UsedDst {
		cs.RecvMode = r.Intn(4)
	}
	cs.PipeCap = []int{1, 2, 3, 7, 16, 64, 256}[r.Intn(7)]
	cs.MaxChunk = []int{1, 1, 2, 3, 5, 8, 64, 0}[r.Intn(8)]
	cs.ZeroRead = []int{0, 0, 0, 9, 30}[r.Intn(5)]
	cs.EOFWith = r.Intn(2) == 0
	cs.Deliver = r.Next() | 1
	cs.Direct = r.Intn(12) == 0 || huge
	if huge {
		cs.UsedDst = false
		cs.RecvMode = 0
		cs.Huge = true
	}
	return cs
}

// logicalEqual compares dtype, shape and every logical element (equal, or both NaN) and, when
// withMask, the mask; maskedOnlyUnmasked restricts the element comparison to unmasked positions.
func logicalEqual(a, b *tensor.Dense, withMask, skipMasked bool, csv bool) string {
	if a.Dtype() != b.Dtype() {
		return fmt.Sprintf("element type %v became %v", a.Dtype(), b.Dtype())
	}
	as, bs := a.Shape(), b.Shape()
	if !as.Eq(bs) {
		return fmt.Sprintf("shape %v became %v", as, bs)
	}
	n := as.TotalSize()
	coords := make([]int, as.Dims())
	amask := a.IsMasked()
	if withMask && amask != b.IsMasked() {
		return fmt.Sprintf("masked=%v became masked=%v", amask, b.IsMasked())
	}
	for i := 0; i < n; i++ {
		var av, bv interface{}
		var err error
		if as.Dims() == 0 {
			if amask && skipMasked && len(a.Mask()) > 0 && a.Mask()[0] {
				return ""
			}
			av, bv = a.ScalarValue(), b.ScalarValue()
		} else {
			if av, err = safeAt(a, coords); err != nil {
				return "unjudgeable: source At: " + err.Error()
			}
			if bv, err = safeAt(b, coords); err != nil {
				return "decoded tensor cannot be read at " + fmt.Sprint(coords) + ": " + err.Error()
			}
		}
		masked := false
		if amask && as.Dims() > 0 {
			m, _ := a.MaskAt(coords...)
			masked = m
			if withMask {
				m2, _ := b.MaskAt(coords...)
				if m != m2 {
					return fmt.Sprintf("mask at %v: %v became %v", coords, m, m2)
				}
			}
		}
		if !(masked && skipMasked) && !sameElem(av, bv) {
			return fmt.Sprintf("element at %v: %v became %v", coords, av, bv)
		}
		for d := len(coords) - 1; d >= 0; d-- {
			coords[d]++
			if coords[d] < as[d] {
				break
			}
			coords[d] = 0
		}
	}
	return ""
}

func safeSnap(t *tensor.Dense) (h uint64) {
	defer func() {
		if r := recover(); r != nil {
			h = 1
		}
	}()
	s := snapOf(t)
	return fnvU64(fnvU64(fnvU64(fnvOff, s.Meta), s.Mask), s.Data)
}

func safeAt(t *tensor.Dense, coords []int) (v interface{}, err error) {
	defer func() {
		if r := recover(); r != nil {
			err = fmt.Errorf("panic: %v", r)
		}
	}()
	return t.At(coords...)
}

func sameElem(a, b interface{}) bool {
	switch x := a.(type) {
	case float64:
		y, ok := b.(float64)
		return ok && (x == y || (math.IsNaN(x) && math.IsNaN(y)))
	case float32:
		y, ok := b.(float32)
		return ok && (x == y || (x != x && y != y))
	case complex128:
		y, ok := b.(complex128)
		return ok && sameElem(real(x), real(y)) && sameElem(imag(x), imag(y))
	case complex64:
		y, ok := b.(complex64)
		return ok && sameElem(real(x), real(y)) && sameElem(imag(x), imag(y))
	}
	return reflect.DeepEqual(a, b)
}

type c14Result struct {
	outcome  string // refused, equal, or a violation kind
	detail   string
	bytes    int
	pipe     *simPipe
	switches uint64
	probe    string // outcome class under an injected stream fault
	decoded  uint64 // snapshot hash of the decoded tensor (0: none)
	encHash  uint64 // hash of the encoded bytes (byte formats and direct streams)
}

func recoverTo(err *error, what string) {
	if r := recover(); r != nil {
		if _, ok := r.(deadlockPanic); ok {
			*err = fmt.Errorf("%s: deadlock", what)
			return
		}
		*err = fmt.Errorf("%s panicked: %v", what, r)
	}
}

type panicErr struct{ error }

// c14Other (gob streams, Multi): a second tensor encoded on the same encoder before the source and decoded on
// the same decoder before it. c14Receiver (UsedDst): a tensor that already holds other contents, into which the
// source is decoded. Both are set by execC14 before the two tasks start.
var c14Other, c14Receiver *tensor.Dense

func encodeTo(format string, src *tensor.Dense, w io.Writer) (err error, panicked bool) {
	defer func() {
		if r := recover(); r != nil {
			if _, ok := r.(deadlockPanic); ok {
				panic(r)
			}
			err, panicked = fmt.Errorf("encoder panicked: %v", r), true
		}
	}()
	switch format {
	case "gob":
		enc := gob.NewEncoder(w)
		if c14Other != nil {
			if err := enc.Encode(c14Other); err != nil {
				return err, false
			}
		}
		return enc.Encode(src), false
	case "npy":
		if c14Other != nil {
			// two arrays one after the other on one stream (what np.save does twice on one file)
			if err := c14Other.WriteNpy(w); err != nil {
				return err, false
			}
		}
		return src.WriteNpy(w), false
	case "csv":
		return src.WriteCSV(w), false
	}
	return fmt.Errorf("no stream encoder for %s", format), false
}

func decodeFrom(format string, dt tensor.Dtype, r io.Reader) (d *tensor.Dense, err error, panicked bool) {
	defer func() {
		if rr := recover(); rr != nil {
			if _, ok := rr.(deadlockPanic); ok {
				panic(rr)
			}
			err, panicked = fmt.Errorf("decoder panicked: %v", rr), true
		}
	}()
	d = new(tensor.Dense)
	if c14Receiver != nil {
		d = c14Receiver
	}
	switch format {
	case "gob":
		dec := gob.NewDecoder(r)
		if c14Other != nil {
			first := new(tensor.Dense)
			if err = dec.Decode(first); err != nil {
				return d, err, false
			}
			// the first value of the stream must have arrived intact, and must stay intact while the
			// second is decoded
			before := snapOf(first)
			err = dec.Decode(d)
			if err == nil && (snapOf(first) != before || logicalEqual(c14Other, first, true, false, false) != "") {
				err = fmt.Errorf("the first tensor of the stream was not delivered intact")
			}
			return d, err, false
		}
		err = dec.Decode(d)
	case "npy":
		if c14Other != nil {
			first := new(tensor.Dense)
			if err = first.ReadNpy(r); err != nil {
				return d, err, false
			}
			before := snapOf(first)
			err = d.ReadNpy(r)
			if err == nil && (snapOf(first) != before || logicalEqual(c14Other, first, false, false, false) != "") {
				err = fmt.Errorf("the first tensor of the stream was not delivered intact")
			}
			return d, err, false
		}
		err = d.ReadNpy(r)
	case "csv":
		err = d.ReadCSV(r, tensor.As(dt))
	default:
		err = fmt.Errorf("no stream decoder for %s", format)
	}
	return d, err, false
}

// execC14 runs one round trip.
func execC14(cs *C14Case, replay bool) *c14Result {
	setBig(cs.Huge)
	tensor.UsePool()
	tensor.VerifDrainChanPools()
	P.Reset(false)
	resetFinalizers()
	w := newWorld(false)
	for i := range cs.Build {
		op := cs.Build[i]
		w.Exec(&op)
	}
	src := w.get(cs.Src)
	res := &c14Result{}
	if src == nil {
		res.outcome = "refused"
		res.detail = "source could not be built"
		return res
	}
	// gob carries the mask; npy and csv document that masked positions are written as the fill value
	// (so only unmasked positions are compared); pb and fb have no mask field and write the raw
	// elements, masked or not (so every element is compared and the mask is not)
	c14Other, c14Receiver = nil, nil
	if (cs.Multi || cs.UsedDst) && len(cs.Build2) > 0 {
		b2 := cs.Build2[0]
		b2.Out = 901
		if cs.UsedDst && !cs.Multi && cs.RecvMode&1 != 0 && b2.Mode == "row" {
			b2.Mode = "col"
		}
		w.Exec(&b2)
		if o := w.get(901); o != nil {
			if cs.Multi {
				c14Other = o
			}
			if cs.UsedDst {
				rc := o.Clone().(*tensor.Dense)
				if rc.Dims() >= 2 && cs.RecvMode&3 == 0 { // (T of a column-major column vector panics: DESIGN.md 9.6)
					rc.T()
				}
				if !rc.IsScalar() {
					rc.ResetMask(true)
				}
				c14Receiver = rc
			}
		}
	}
	defer func() { c14Other, c14Receiver = nil, nil }()
	carriesMask := cs.Format == "gob" || cs.Format == "gobbytes"
	skipMasked := cs.Format == "npy" || cs.Format == "csv"
	judge := func(d *tensor.Dense, encErr, decErr error, encPanic, decPanic bool) {
		switch {
		case encErr != nil && !encPanic:
			res.outcome, res.detail = "refused", encErr.Error()
		case encPanic:
			res.outcome, res.detail = "encode-panic", encErr.Error()
		case decPanic:
			res.outcome, res.detail = "decode-panic", decErr.Error()
		case decErr != nil:
			res.outcome, res.detail = "undecodable", "the encoder reported success but the complete stream does not decode: "+decErr.Error()
		default:
			res.decoded = safeSnap(d)
			if diff := logicalEqual(src, d, carriesMask, skipMasked, cs.Format == "csv"); strings.HasPrefix(diff, "unjudgeable") {
				res.outcome, res.detail = "unjudgeable", diff
			} else if diff != "" {
				res.outcome, res.detail = "decoded-different", diff
			} else if diff = storageOrderConsistent(d); diff != "" && storageOrderConsistent(src) == "" {
				// (a source that has this inconsistency itself - a full-range slice of a lazily transposed tensor
				// keeps the permuted strides without the saved access pattern - is reproduced faithfully)
				res.outcome, res.detail = "decoded-different", diff
			} else {
				res.outcome = "equal"
			}
		}
	}
	switch cs.Format {
	case "gobbytes", "pb", "fb":
		var b []byte
		var encErr, decErr error
		var encPanic, decPanic bool
		d := new(tensor.Dense)
		if c14Receiver != nil {
			d = c14Receiver
		}
		func() {
			defer func() {
				if r := recover(); r != nil {
					encErr, encPanic = fmt.Errorf("encoder panicked: %v", r), true
				}
			}()
			switch cs.Format {
			case "gobbytes":
				b, encErr = src.GobEncode()
			case "pb":
				b, encErr = src.PBEncode()
			case "fb":
				b, encErr = src.FBEncode()
			}
		}()
		bytesChanged := false
		if encErr == nil && len(cs.Build2) > 0 {
			// the caller holds b and encodes another tensor before decoding
			snap := append([]byte(nil), b...)
			for i := range cs.Build2 {
				op := cs.Build2[i]
				w.Exec(&op)
			}
			if other := w.get(cs.Build2[len(cs.Build2)-1].Out); other != nil {
				func() {
					defer func() { recover() }()
					switch cs.Format {
					case "gobbytes":
						other.GobEncode()
					case "pb":
						other.PBEncode()
					case "fb":
						other.FBEncode()
					}
				}()
			}
			bytesChanged = !bytes.Equal(snap, b)
		}
		if encErr == nil && !bytesChanged {
			// (bytes that changed under the caller are already a violation; they are not fed to the
			// decoder, which trusts the lengths it finds in them)
			func() {
				defer func() {
					if r := recover(); r != nil {
						decErr, decPanic = fmt.Errorf("decoder panicked: %v", r), true
					}
				}()
				switch cs.Format {
				case "gobbytes":
					decErr = d.GobDecode(b)
				case "pb":
					decErr = d.PBDecode(b)
				case "fb":
					decErr = d.FBDecode(b)
				}
			}()
		}
		res.bytes = len(b)
		res.encHash = fnvBytes(fnvOff, b)
		judge(d, encErr, decErr, encPanic, decPanic)
		if bytesChanged {
			res.outcome, res.detail = "encoded-bytes-changed", "the byte slice returned by the encoder changed when another tensor was encoded afterwards"
		}
		return res
	}
	if cs.Direct {
		var buf bytes.Buffer
		encErr, encPanic := encodeTo(cs.Format, src, &buf)
		res.bytes = buf.Len()
		res.encHash = fnvBytes(fnvOff, buf.Bytes())
		var d *tensor.Dense
		var decErr error
		var decPanic bool
		if encErr == nil {
			d, decErr, decPanic = decodeFrom(cs.Format, src.Dtype(), &buf)
		}
		judge(d, encErr, decErr, encPanic, decPanic)
		return res
	}
	// two tasks over the simulated pipe
	p := &simPipe{capacity: cs.PipeCap, maxChunk: cs.MaxChunk, zeroDen: cs.ZeroRead, eofWith: cs.EOFWith, rng: RNG{s: cs.Deliver}, werrAt: -1, rerrAt: -1, sig: fnvOff, encHash: fnvOff}
	p.buf = make([]byte, 0, cs.PipeCap+8)
	crashAt := -1
	switch cs.Fault {
	case "werr":
		p.werrAt = cs.FaultAt
	case "rerr":
		p.rerrAt = cs.FaultAt
	case "crash":
		crashAt = cs.FaultAt
		p.werrAt = cs.FaultAt // the producer dies here: nothing after this offset reaches the pipe
	}
	res.pipe = p
	var encErr, decErr error
	var encPanic, decPanic bool
	var d *tensor.Dense
	S.Reset(*flagSites)
	S.maxYields = runBudget()
	if replay && len(cs.Tape) > 0 {
		S.LoadTape(cs.Tape)
	} else {
		S.rng = RNG{s: cs.Deliver ^ 0x51}
		S.pInDen = 0
		S.pBoundDen = []int{1, 2, 3, 8}[int(cs.Deliver>>8)%4]
	}
	dt := src.Dtype()
	S.Run(2, func(c int) {
		defer func() {
			if r := recover(); r != nil {
				if c == 0 {
					encErr, encPanic = fmt.Errorf("encoder: %v", r), true
					p.closed = true
				} else {
					decErr, decPanic = fmt.Errorf("decoder: %v", r), true
				}
			}
		}()
		if c == 0 {
			encErr, encPanic = encodeTo(cs.Format, src, p)
			p.closed = true
		} else {
			d, decErr, decPanic = decodeFrom(cs.Format, dt, p)
		}
	})
	cs.Tape = append([]Switch(nil), S.tape...)
	res.switches = S.switches
	res.bytes = p.written
	res.encHash = p.encHash
	if S.deadlock {
		res.outcome, res.detail = "deadlock", "encoder and decoder both blocked on the pipe"
		return res
	}
	if cs.Fault != "" {
		// probe only: the statement promises nothing about incomplete or failed streams
		_ = crashAt
		switch {
		case decPanic:
			res.probe = "decoder-panic"
		case decErr != nil:
			res.probe = "decoder-error"
		case encErr != nil && cs.Fault == "werr":
			res.probe = "encoder-error+decoded"
		case cs.Fault == "werr":
			res.probe = "encoder-silent+decoded"
		default:
			res.probe = "decoded-without-error"
		}
		res.outcome = "probe"
		return res
	}
	judge(d, encErr, decErr, encPanic, decPanic)
	return res
}

type C14Stats struct {
	Trips, Refused, Equal                             uint64
	Bytes, Reads, ShortReads, ZeroReads, EOFWithData  uint64
	WriterParked, ReaderParked, Switches, DirectTrips uint64
	ByteFormats, DeliveryPairs, HistoryPairs          uint64
	Outcomes                                          map[string]uint64
	PerFormat                                         map[string]uint64
	Layouts                                           map[string]uint64
	Probe                                             map[string]uint64
	FaultsInjected                                    map[string]uint64
	Distinct                                          map[uint64]struct{}
	Samples                                           []interface{}
}

func c14Key(cs *C14Case, src *tensor.Dense, sig uint64) uint64 {
	h := uint64(fnvOff)
	h = fnvStr(h, cs.Format)
	h = fnvStr(h, cs.Layout)
	for _, o := range cs.Build[:1] {
		h = fnvStr(h, o.S)
		h = fnvU64(h, uint64(len(o.I)))
		h = fnvU64(h, uint64(o.N&1))
	}
	return fnvU64(h, sig)
}

func c14Ctx(cs *C14Case, r *c14Result) map[string]interface{} {
	b := cs.Build[0]
	shape := b.I
	if b.Mode == "scalar" {
		shape = []int{}
	}
	colvec := len(shape) == 2 && shape[1] == 1
	rowvec := len(shape) == 2 && shape[0] == 1
	return map[string]interface{}{"format": cs.Format, "dtype": b.S, "layout": cs.Layout, "base": b.Mode, "rank": len(shape), "shape": shape,
		"masked": b.N&1 != 0, "sliced": strings.Contains(cs.Layout, "slice"), "lazy_transposed": strings.HasSuffix(cs.Layout, "+T") || strings.Contains(cs.Layout, "+T+"),
		"phys_transposed": strings.Contains(cs.Layout, "+Transpose"),
		"colmajor":        strings.HasPrefix(cs.Layout, "col"), "colvec": colvec, "rowvec": rowvec, "extreme_values": b.F >= 1000, "detail": r.detail, "direct": cs.Direct}
}

var digitsRE = regexp.MustCompile(`[0-9]+`)

// c14ClassKey identifies a violation class finely enough that every KNOWN_FINDINGS predicate gives
// the same answer for all members: the worker keeps one representative replay file per class.
func c14ClassKey(v *Violation) string {
	x := v.Ctx
	d := digitsRE.ReplaceAllString(fmt.Sprint(x["detail"]), "N")
	if len(d) > 90 {
		d = d[:90]
	}
	return fmt.Sprintf("%s|%v|%v|%v|%v|%v|%v|%s", v.Kind, x["format"], x["dtype"], x["rank"], x["layout"], x["masked"], x["colvec"], d)
}

func isViolationC14(outcome string) bool {
	switch outcome {
	case "refused", "equal", "probe", "unjudgeable":
		return false
	}
	return true
}

func workC14(res *WorkerResult, start time.Time) {
	st := &C14Stats{Outcomes: map[string]uint64{}, PerFormat: map[string]uint64{}, Layouts: map[string]uint64{}, Probe: map[string]uint64{},
		FaultsInjected: map[string]uint64{}, Distinct: map[uint64]struct{}{}}
	var prev *C14Case
	classIdx := map[string]int{}
	keep := func(rf *ReplayFile) {
		k := c14ClassKey(rf.Violation)
		if i, ok := classIdx[k]; ok {
			res.Violations[i].Count++
			return
		}
		rf.Count = 1
		classIdx[k] = len(res.Violations)
		res.Replays = append(res.Replays, saveReplay(rf))
		res.Violations = append(res.Violations, *rf)
	}
	for i := uint64(0); i < *flagRuns; i++ {
		if overBudget(start) || len(res.Violations) >= 4000 {
			break
		}
		run := *flagFirst + i
		progress(run)
		rs := mix(*flagSeed, run^0xc14)
		cs := genC14(rs)
		r := execC14(cs, false)
		res.Done++
		if *flagDigests {
			var sig uint64
			if r.pipe != nil {
				sig = r.pipe.sig
			}
			fmt.Printf("%d %016x %s\n", run, fnvU64(fnvStr(sig, r.outcome), uint64(r.bytes)), r.outcome)
			continue
		}
		st.Trips++
		st.Outcomes[r.outcome]++
		st.PerFormat[cs.Format]++
		st.Layouts[cs.Layout]++
		st.Bytes += uint64(r.bytes)
		if r.pipe != nil {
			p := r.pipe
			st.Reads += uint64(p.reads)
			st.ShortReads += uint64(p.shortReads)
			st.ZeroReads += uint64(p.zeroReads)
			st.EOFWithData += uint64(p.eofWithData)
			st.WriterParked += uint64(p.writerParked)
			st.ReaderParked += uint64(p.readerParked)
			st.Switches += r.switches
			if p.shortReads > 0 || r.switches > 2 {
				st.Distinct[c14Key(cs, nil, p.sig)] = struct{}{}
			}
		} else if cs.Direct {
			st.DirectTrips++
		} else {
			st.ByteFormats++
		}
		if len(st.Samples) < 3 && r.pipe != nil && r.outcome == "equal" && r.bytes < 200 {
			st.Samples = append(st.Samples, map[string]interface{}{"seed": rs, "format": cs.Format, "layout": cs.Layout, "build": cs.Build, "bytes": r.bytes,
				"pipe_cap": cs.PipeCap, "max_chunk": cs.MaxChunk, "reads": r.pipe.reads, "short_reads": r.pipe.shortReads, "switches": r.switches, "outcome": r.outcome})
		}
		// probe-only: the same round trip again with an injected stream fault
		if r.pipe != nil && r.bytes > 0 && (r.outcome == "equal") && rs%4 == 0 {
			pc := *cs
			pr := RNG{s: rs ^ 0xfa17}
			pc.Fault = []string{"crash", "werr", "rerr"}[pr.Intn(3)]
			pc.FaultAt = pr.Intn(r.bytes)
			pc.Tape = nil
			q := execC14(&pc, false)
			st.FaultsInjected[pc.Fault]++
			st.Probe[pc.Fault+":"+q.probe]++
			if q.outcome == "deadlock" {
				st.Probe[pc.Fault+":deadlock"]++
			}
		}
		// delivery independence: the same round trip over an undisturbed in-memory stream must have
		// the same outcome (same class, same error text, same decoded tensor)
		if r.pipe != nil && r.outcome != "deadlock" {
			dc := *cs
			dc.Direct = true
			dc.Tape = nil
			q := execC14(&dc, false)
			st.DeliveryPairs++
			if q.outcome != r.outcome || q.detail != r.detail || q.decoded != r.decoded {
				v := &Violation{Property: "C14", Kind: "delivery-dependence", FailOp: cs.Format, Class: cs.Layout + "/" + cs.Build[0].S,
					Detail: fmt.Sprintf("format %s, source %s %s: over the simulated pipe (capacity %d, chunks <= %d, %d short reads) the outcome is %q (%s), over an undisturbed in-memory stream it is %q (%s)",
						cs.Format, cs.Build[0].S, cs.Layout, cs.PipeCap, cs.MaxChunk, r.pipe.shortReads, r.outcome, r.detail, q.outcome, q.detail)}
				v.Ops = []string{cs.Format, cs.Layout, "delivery"}
				v.Ctx = c14Ctx(cs, r)
				keep(&ReplayFile{Property: "C14", Violation: v, Seed: *flagSeed, Run: run, Tags: *flagTags, C14: cs})
				continue
			}
		}
		// history independence: the same round trip again, after the previous run's round trip was
		// repeated in between, must give the same bytes, the same outcome and the same decoded tensor
		if prev != nil && rs%3 == 0 && r.outcome != "deadlock" {
			execC14(prev, true)
			again := *cs
			q := execC14(&again, true)
			st.HistoryPairs++
			// (pb and fb write string elements as raw string headers, i.e. addresses: their byte streams differ by construction)
			rawPointers := (cs.Format == "pb" || cs.Format == "fb") && cs.Build[0].S == "string"
			if q.outcome != r.outcome || q.detail != r.detail || q.decoded != r.decoded || (q.encHash != r.encHash && !rawPointers) {
				v := &Violation{Property: "C14", Kind: "history-dependence", FailOp: cs.Format, Class: cs.Layout + "/" + cs.Build[0].S,
					Detail: fmt.Sprintf("format %s, source %s %s: the first round trip gave %q (%s, %d bytes, stream hash %016x); the same round trip after a %s round trip of another tensor gave %q (%s, stream hash %016x)",
						cs.Format, cs.Build[0].S, cs.Layout, r.outcome, r.detail, r.bytes, r.encHash, prev.Format, q.outcome, q.detail, q.encHash)}
				v.Ops = []string{cs.Format, cs.Layout, "history"}
				v.Ctx = c14Ctx(cs, r)
				keep(&ReplayFile{Property: "C14", Violation: v, Seed: *flagSeed, Run: run, Tags: *flagTags, C14: cs, From: prev})
				prev = cs
				continue
			}
		}
		prev = cs
		if !isViolationC14(r.outcome) {
			continue
		}
		v := &Violation{Property: "C14", Kind: r.outcome, FailOp: cs.Format, Class: cs.Layout + "/" + cs.Build[0].S, Detail: fmt.Sprintf("format %s, source %s %s (mask=%v): %s", cs.Format, cs.Build[0].S, cs.Layout, cs.Build[0].N&1 != 0, r.detail)}
		v.Ops = []string{cs.Format, cs.Layout}
		v.Ctx = c14Ctx(cs, r)
		// minimise the delivery: does it fail with the plain bytes.Buffer delivery too?
		mc := *cs
		if !cs.Direct && r.pipe != nil {
			dc := *cs
			dc.Direct = true
			dc.Tape = nil
			if q := execC14(&dc, false); q.outcome == r.outcome {
				mc = dc
				v.Detail += " [also with an undisturbed in-memory stream]"
				v.Ops = append(v.Ops, "direct")
			} else {
				v.Detail += fmt.Sprintf(" [only under the simulated delivery: pipe %d bytes, chunks <= %d; an in-memory stream gives %q]", cs.PipeCap, cs.MaxChunk, q.outcome)
				v.Ops = append(v.Ops, "delivery")
			}
		}
		rr := execC14(&mc, true)
		if rr.outcome != r.outcome {
			fmt.Fprintf(os.Stderr, "tsim: C14 run %d: case did not reproduce (%s vs %s) (harness defect)\n", run, rr.outcome, r.outcome)
			os.Exit(2)
		}
		keep(&ReplayFile{Property: "C14", Violation: v, Seed: *flagSeed, Run: run, Tags: *flagTags, C14: &mc})
	}
	runtime.KeepAlive(st)
	res.Distinct = keysOf(st.Distinct)
	res.Stats = map[string]interface{}{
		"round_trips": st.Trips, "outcomes": st.Outcomes, "per_format": st.PerFormat, "layouts": st.Layouts, "bytes": st.Bytes,
		"reads": st.Reads, "short_reads": st.ShortReads, "zero_reads": st.ZeroReads, "eof_with_data": st.EOFWithData,
		"writer_parked": st.WriterParked, "reader_parked": st.ReaderParked, "switches": st.Switches, "direct_trips": st.DirectTrips,
		"byte_format_trips": st.ByteFormats, "delivery_pairs_compared": st.DeliveryPairs, "history_pairs_compared": st.HistoryPairs, "probe_only_outcomes": st.Probe, "faults_injected": st.FaultsInjected,
		"distinct_nontrivial": len(st.Distinct), "samples": st.Samples,
	}
}

func replayC14(c *C14Case) *Violation {
	r := execC14(c, true)
	if r.pipe != nil {
		dc := *c
		dc.Direct = true
		dc.Tape = nil
		q := execC14(&dc, false)
		if q.outcome != r.outcome || q.detail != r.detail || q.decoded != r.decoded {
			return &Violation{Property: "C14", Kind: "delivery-dependence", FailOp: c.Format, Class: c.Layout + "/" + c.Build[0].S,
				Detail: fmt.Sprintf("simulated pipe: %q (%s); in-memory stream: %q (%s)", r.outcome, r.detail, q.outcome, q.detail)}
		}
	}
	if !isViolationC14(r.outcome) {
		return nil
	}
	return &Violation{Property: "C14", Kind: r.outcome, FailOp: c.Format, Class: c.Layout + "/" + c.Build[0].S, Detail: r.detail}
}

// storageOrderConsistent is the second reading of a decoded tensor's logical elements: a tensor that says it
// needs no iterator is processed by every kernel in storage order, so its storage order must be its logical
// order (row-major, or column-major when it says so). A decoder that restores strides without the matching
// layout flags produces a tensor that reads correctly through At and wrongly through everything else.
func storageOrderConsistent(d *tensor.Dense) (diff string) {
	defer func() {
		if r := recover(); r != nil {
			diff = fmt.Sprintf("decoded tensor cannot be read in storage order: %v", r)
		}
	}()
	sh := d.Shape()
	if d.RequiresIterator() || sh.Dims() < 2 || sh.TotalSize() < 2 {
		return ""
	}
	rv := reflect.ValueOf(d.Data())
	if rv.Kind() != reflect.Slice || rv.Len() != sh.TotalSize() {
		return ""
	}
	col := d.DataOrder().IsColMajor()
	coords := make([]int, sh.Dims())
	for k := 0; k < rv.Len(); k++ {
		v, err := d.At(coords...)
		if err != nil {
			return ""
		}
		if !sameElem(v, rv.Index(k).Interface()) {
			return fmt.Sprintf("decoded tensor claims to be contiguous (order %v, strides %v) but its element %d in storage order is %v while At(%v) is %v", d.DataOrder(), d.Strides(), k, rv.Index(k).Interface(), coords, v)
		}
		if col {
			for j := 0; j < len(coords); j++ {
				coords[j]++
				if coords[j] < sh[j] {
					break
				}
				coords[j] = 0
			}
		} else {
			for j := len(coords) - 1; j >= 0; j-- {
				coords[j]++
				if coords[j] < sh[j] {
					break
				}
				coords[j] = 0
			}
		}
	}
	return ""
}
