package main

import "time"

type C18Case struct{}
type C14Case struct{}

func workC18(res *WorkerResult, start time.Time) {}
func workC14(res *WorkerResult, start time.Time) {}
func replayC18(c *C18Case) *Violation          { return nil }
func replayC14(c *C14Case) *Violation          { return nil }
