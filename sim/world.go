package main

import (
	"fmt"
	"reflect"
	"unsafe"

	"gorgonia.org/tensor"
)

// Op is one literal operation of a program: everything needed to re-execute it is in here, so a
// program can be written to a replay file and run again without the generator.
type Op struct {
	Name string  `json:"op"`
	In   []int   `json:"in,omitempty"`   // operand slots
	R    int     `json:"r,omitempty"`    // reuse / incr / destination slot (Mode says which)
	R2   int     `json:"r2,omitempty"`   // the incr slot when both a reuse and an incr tensor are given (Mode reuse-incr)
	Out  int     `json:"out"`            // slot receiving a tensor result (-1: discarded)
	Mode string  `json:"mode,omitempty"` // "", unsafe, reuse, incr, same, ...
	Form string  `json:"form,omitempty"` // vv, vs, sv
	I    []int   `json:"i,omitempty"`
	J    []int   `json:"j,omitempty"`
	N    int     `json:"n,omitempty"`
	F    float64 `json:"f,omitempty"`
	S    string  `json:"s,omitempty"`
	Fam  string  `json:"fam,omitempty"`
	// Adv seeds every adversity that happens during and right after this operation in the adversarial
	// world (pool hand-outs, dropped puts, environment client, caller scribbles, finalizers, tensor-pool
	// rotation). 0 = none. Keying adversity by operation keeps the other operations' adversities
	// unchanged when the minimiser removes this one.
	Adv uint64 `json:"adv,omitempty"`
}

func (o Op) String() string {
	return fmt.Sprintf("%s in=%v r=%d out=%d mode=%s form=%s i=%v j=%v n=%d f=%v s=%s", o.Name, o.In, o.R, o.Out, o.Mode, o.Form, o.I, o.J, o.N, o.F, o.S)
}

// Outcome of one operation. Error texts and panic values are not part of it (they contain addresses).
type Outcome struct {
	St uint8  `json:"st"` // 0 ok, 1 error, 2 panic, 3 skipped (operand slot dead), 4 deadlock
	H  uint64 `json:"h"`  // structural hash of the result
}

const (
	stOK = iota
	stErr
	stPanic
	stSkip
	stDeadlock
	stBudget // the operation exceeded its step budget (did not terminate)
)

type argRec struct {
	live, pristine []int
	step           int
	what           string
}

// backRec: a caller-owned slice of which only the front part was given to a tensor as backing.
type backRec struct {
	full reflect.Value
	n    int
	tail string
	step int
}

type sliceRec struct {
	live     []tensor.Slice
	pristine [][3]int
	nils     []bool
	step     int
}

type World struct {
	slots     []*tensor.Dense
	iters     []tensor.Iterator
	args      []argRec
	sargs     []sliceRec
	backs     []backRec
	sopts     [4][]tensor.ConsOpt // construction options the program keeps and applies more than once
	graveyard []*tensor.Dense     // dropped tensors, kept reachable (see the Drop operation)
	adv       bool                // adversarial world: the caller overwrites its argument slices after each call
	scribN    uint64
	step      int
	client    int // client id (C18), 0 otherwise
	nshared   int // slots [0,nshared) are shared, read-only tensors (C18)
	sparse    []*tensor.CS // compressed sparse matrices (C18: built by the setup recipe, shared by all clients, only read)
	eng       *FaultEng
	lastErr   string
	lastRes   int // slot the last result is pointer-identical to (-1: none / fresh)
	opArgs    int // index into args of the first argument of the operation in flight
}

func newWorld(adv bool) *World {
	return &World{adv: adv}
}

func (w *World) get(i int) *tensor.Dense {
	if i < 0 || i >= len(w.slots) {
		return nil
	}
	return w.slots[i]
}

func (w *World) set(i int, t *tensor.Dense) {
	if i < 0 {
		return
	}
	for len(w.slots) <= i {
		w.slots = append(w.slots, nil)
	}
	w.slots[i] = t
}

// arg makes the caller-owned slice that is actually passed to the library and remembers a pristine copy.
func (w *World) arg(what string, s []int) []int {
	if s == nil {
		return nil
	}
	// every other call the caller's slice has spare capacity (filled with sentinels), as slices cut out
	// of a larger buffer have: an append onto it inside the library would write into the caller's memory
	spare := 0
	if (w.step+len(w.args))%2 == 1 {
		spare = 3
	}
	full := make([]int, len(s)+spare)
	copy(full, s)
	for i := len(s); i < len(full); i++ {
		full[i] = -7001 - i
	}
	live := full[:len(s)]
	w.args = append(w.args, argRec{live: full, pristine: cloneInts(full), step: w.step, what: what})
	return live
}

type simSlice struct{ s, e, st int }

func (x *simSlice) Start() int { return x.s }
func (x *simSlice) End() int   { return x.e }
func (x *simSlice) Step() int  { return x.st }

// sliceArg decodes I = [kind,start,end,step]* (kind 0 nil, 1 range, 2 single index) into a []tensor.Slice.
func (w *World) sliceArg(enc []int) []tensor.Slice {
	n := len(enc) / 4
	out := make([]tensor.Slice, n)
	rec := sliceRec{step: w.step, pristine: make([][3]int, n), nils: make([]bool, n)}
	for k := 0; k < n; k++ {
		kind, s, e, st := enc[4*k], enc[4*k+1], enc[4*k+2], enc[4*k+3]
		switch kind {
		case 0:
			rec.nils[k] = true
		case 2:
			out[k] = &simSlice{s, s + 1, 0}
			rec.pristine[k] = [3]int{s, s + 1, 0}
		default:
			out[k] = &simSlice{s, e, st}
			rec.pristine[k] = [3]int{s, e, st}
		}
	}
	rec.live = out
	w.sargs = append(w.sargs, rec)
	return out
}

// callerScribble: the caller reuses the slices it passed to the call that just returned.
func (w *World) callerScribble() {
	for i := w.opArgs; i < len(w.args); i++ {
		a := &w.args[i]
		for j := range a.live {
			a.live[j] = 0x7A7A00 + j
		}
		w.scribN++
	}
	w.opArgs = len(w.args)
}

// checkArgs: every slice the caller ever passed still has the contents the caller put there.
func (w *World) checkArgs() string {
	for i := range w.args {
		a := &w.args[i]
		for j := range a.live {
			if a.live[j] != a.pristine[j] {
				return fmt.Sprintf("caller's %s slice passed at step %d changed from %v to %v", a.what, a.step, a.pristine, a.live)
			}
		}
	}
	for i := range w.backs {
		b := &w.backs[i]
		if now := fmt.Sprint(b.full.Slice(b.n, b.full.Len()).Interface()); now != b.tail {
			return fmt.Sprintf("caller's backing slice passed at step %d: the part beyond the %d elements given to the tensor changed from %s to %s", b.step, b.n, b.tail, now)
		}
	}
	for i := range w.sargs {
		a := &w.sargs[i]
		for j, s := range a.live {
			if a.nils[j] {
				if s != nil {
					return fmt.Sprintf("caller's slice list passed at step %d: nil entry %d replaced", a.step, j)
				}
				continue
			}
			if s == nil || s.Start() != a.pristine[j][0] || s.End() != a.pristine[j][1] || s.Step() != a.pristine[j][2] {
				return fmt.Sprintf("caller's slice list passed at step %d: entry %d changed", a.step, j)
			}
		}
	}
	return ""
}

// roots returns, for every live slot, the lowest slot of its storage component: two slots are in the
// same component when their backing windows overlap, directly or through a chain of other live slots.
func (w *World) roots() []int {
	n := len(w.slots)
	r := make([]int, n)
	type win struct{ lo, hi uintptr }
	ws := make([]win, n)
	for i, t := range w.slots {
		r[i] = -1
		if t == nil {
			continue
		}
		r[i] = i
		p, sz := rawOf(t)
		ws[i] = win{p, p + uintptr(sz)}
	}
	find := func(i int) int {
		for r[i] != i {
			r[i] = r[r[i]]
			i = r[i]
		}
		return i
	}
	for i := 0; i < n; i++ {
		if w.slots[i] == nil {
			continue
		}
		for j := 0; j < i; j++ {
			if w.slots[j] == nil {
				continue
			}
			same := w.slots[i] == w.slots[j]
			if !same && ws[j].lo != 0 && ws[i].lo != 0 && ws[j].lo < ws[i].hi && ws[i].lo < ws[j].hi {
				same = true
			}
			if same {
				a, b := find(i), find(j)
				if a < b {
					r[b] = a
				} else if b < a {
					r[a] = b
				}
			}
		}
	}
	for i := 0; i < n; i++ {
		if r[i] >= 0 {
			r[i] = find(i)
		}
	}
	return r
}

func (w *World) liveSlots() []int {
	var l []int
	for i, t := range w.slots {
		if t != nil {
			l = append(l, i)
		}
	}
	return l
}

func unsafeStrings(raw []byte, n int) []string {
	if n == 0 {
		return nil
	}
	return unsafe.Slice((*string)(unsafe.Pointer(&raw[0])), n)
}

func unsafePtr(raw []byte, off int) unsafe.Pointer { return unsafe.Pointer(&raw[off]) }

// ---------------------------------------------------------------------------------------------
// FaultEng: a caller-supplied engine whose whole-tensor copies and fills can fail.

type FaultEng struct {
	tensor.StdEng
	st *faultState
}

type faultState struct {
	countdown int // >0: the countdown-th Memcpy/Memset from now fails
	fired     uint64
	calls     uint64
}

type injectedFault struct{}

func (injectedFault) Error() string { return "injected engine failure" }

func (e FaultEng) Memcpy(dst, src tensor.Memory) error {
	e.st.calls++
	if e.st.countdown > 0 {
		e.st.countdown--
		if e.st.countdown == 0 {
			e.st.fired++
			return injectedFault{}
		}
	}
	return e.StdEng.Memcpy(dst, src)
}

func (e FaultEng) Memset(mem tensor.Memory, val interface{}) error {
	e.st.calls++
	if e.st.countdown > 0 {
		e.st.countdown--
		if e.st.countdown == 0 {
			e.st.fired++
			return injectedFault{}
		}
	}
	return e.StdEng.Memset(mem, val)
}
