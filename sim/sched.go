package main

import (
	"runtime"
	"sync"
)

// The scheduler: client goroutines run real library code, exactly one at a time. Which one
// runs next is decided here - from the seed when generating, from the recorded tape when
// replaying - never by the Go runtime.

const maxClients = 16

// Switch is one scheduling decision.
type Switch struct {
	C    int    `json:"c"`           // client giving up the processor (-1: the initial choice)
	K    uint64 `json:"k"`           // that client's local yield count at that moment
	Next int    `json:"n"`           // client that runs next
	T    string `json:"t,omitempty"` // "" yield, "f" finish, "b" blocked, "s" start
	Site uint32 `json:"site,omitempty"`
}

// deadlockPanic is thrown into a client that is blocked when every unfinished client is blocked.
type deadlockPanic struct{ site uint32 }

// budgetPanic is thrown into an operation that exceeds its step budget (bounded liveness: every
// operation on these small tensors finishes within a few thousand statements; one that is still
// running after millions is not going to).
type budgetPanic struct{ site uint32 }

type Sched struct {
	active bool
	replay bool
	quiet  int // >0: yields are ignored (the simulator itself is calling library code)
	n      int
	cur    int
	done   [maxClients]bool
	local  [maxClients]uint64
	inOp   [maxClients]int // index of the operation in flight, -1 between operations

	rng        RNG
	pInDen     int // switch with probability 1/pInDen at statement-level yields (0: never)
	pSyncDen   int // sync-random strategy: switch with probability 1/pSyncDen at synchronisation statements only
	pBoundDen  int // ... at operation boundaries
	burstLeft  int // >0: forced switch when it reaches 0
	burstDen   int // after a switch, with probability 1/burstDen schedule a short burst
	pct        bool
	pctSync    bool   // PCT whose change points are counted in synchronisation statements only
	syncTotal  uint64 // synchronisation statements executed so far in this run
	pctPrio    [maxClients]int
	pctChange  []uint64 // global yield counts at which the running client's priority drops
	pctNextLow int

	tape    []Switch             // recorded decisions (both modes)
	rp      [maxClients][]Switch // replay: decisions per client, in order
	rpi     [maxClients]int
	rpStart int

	total        uint64
	maxYields    uint64
	overBudget   bool
	tapeFull     bool   // the switch tape overflowed: the run is abandoned, not judged
	soloYields   uint64 // statements executed in single-client mode since the last reset (sizes the schedule)
	countOnly    bool   // no scheduling, only the per-operation step budget (single-client runs)
	opYields     uint64 // statements executed by the operation in flight (countOnly mode)
	budgetSite   uint32
	budgetClient int
	opYc         [maxClients]uint64 // statements executed by each client's operation in flight
	switches     uint64
	switchesInOp uint64
	blockedRun   int
	isBlocked    [maxClients]bool // blocked since the last statement any client completed
	deadlock     bool
	deadlockSite uint32
	sig          uint64 // schedule signature: hash of (client, site) at switch points
	sigK         uint64 // the same over (client, local yield count): free of site ids, which one address-dependent
	// branch of the library (overlaps() in dense_assign.go compares the addresses of two allocations) makes differ between processes
	cover      []uint64
	coverCount int

	onSwitch func(from, to int) // oracle hook, called in the yielding client's goroutine

	turn int64
	wg   sync.WaitGroup
}

var S Sched

//go:norace
func (s *Sched) Reset(nsites int) {
	tp := s.tape
	if cap(tp) < tapeCap {
		tp = make([]Switch, 0, tapeCap)
	}
	cov := s.cover
	if len(cov) != (nsites+64)/64 {
		cov = make([]uint64, (nsites+64)/64)
	}
	cc := s.coverCount
	*s = Sched{}
	s.cover = cov
	s.coverCount = cc
	s.maxYields = runBudget()
	s.sig = fnvOff
	s.sigK = fnvOff
	s.tape = tp[:0]
}

// LoadTape prepares replay of a recorded tape.
//
//go:norace
func (s *Sched) LoadTape(t []Switch) {
	s.replay = true
	s.rpStart = -1
	for _, sw := range t {
		if sw.T == "s" {
			s.rpStart = sw.Next
			continue
		}
		if sw.C >= 0 && sw.C < maxClients {
			s.rp[sw.C] = append(s.rp[sw.C], sw)
		}
	}
}

const tapeCap = 1 << 17

// opYieldBudget bounds one operation (the largest legitimate operation on tensors of up to 512 elements needs ~10^4
// statements). Programs over large tensors (setBig) get budgets in proportion.
var opYieldBudget uint64 = 3 << 20

const (
	smallOpBudget  = 3 << 20
	smallRunBudget = 64 << 20
	bigOpBudget    = 3 << 28
	bigRunBudget   = 1 << 34
)

var bigMode bool

// setBig switches the step budgets between ordinary programs and programs that may hold tensors of up to 2^17 elements.
func setBig(on bool) {
	bigMode = on
	S.opYields = 0 // (the count of the previous program's last operation must not meet the new budget)
	if on {
		opYieldBudget = bigOpBudget
	} else {
		opYieldBudget = smallOpBudget
	}
}

func runBudget() uint64 {
	if bigMode {
		return bigRunBudget
	}
	return smallRunBudget
}

// tapeAdd records a decision without append/copy: the runtime helpers behind those builtins carry
// race-detector annotations of their own, and this code runs in client goroutines whose hand-off
// must stay invisible to the detector.
//
//go:norace
func (s *Sched) tapeAdd(sw Switch) {
	n := len(s.tape)
	if n >= cap(s.tape) {
		s.overBudget = true
		s.tapeFull = true
		return
	}
	s.tape = s.tape[:n+1]
	s.tape[n] = sw
}

//go:norace
func (s *Sched) beginOp() {
	s.opYields = 0
	if s.active {
		s.opYc[s.cur] = 0
	}
}

//go:norace
func (s *Sched) markCover(site uint32) {
	w, b := site/64, site%64
	if int(w) < len(s.cover) && s.cover[w]&(1<<b) == 0 {
		s.cover[w] |= 1 << b
		s.coverCount++
	}
}

//go:norace
func (s *Sched) otherUnfinished(c int, pick int) int {
	// pick-th unfinished client other than c (wrapping), or -1
	cnt := 0
	for i := 0; i < s.n; i++ {
		if i != c && !s.done[i] {
			cnt++
		}
	}
	if cnt == 0 {
		return -1
	}
	pick %= cnt
	for i := 0; i < s.n; i++ {
		if i != c && !s.done[i] {
			if pick == 0 {
				return i
			}
			pick--
		}
	}
	return -1
}

//go:norace
func (s *Sched) pctBest(excl int) int {
	best := -1
	for i := 0; i < s.n; i++ {
		if i == excl || s.done[i] {
			continue
		}
		if best < 0 || s.pctPrio[i] > s.pctPrio[best] {
			best = i
		}
	}
	return best
}

// decide returns the client to run after client c reached a yield of the given kind.
//
//go:norace
func (s *Sched) decide(c int, kind string, site uint32, boundary bool) int {
	must := kind == "f" || kind == "b"
	next := c
	if s.replay {
		lst := s.rp[c]
		i := s.rpi[c]
		if kind == "f" {
			for i < len(lst) && lst[i].T != "f" {
				i++
			}
			if i < len(lst) {
				next = lst[i].Next
				i++
			}
		} else {
			// skip stale entries (possible after minimisation removed operations)
			for i < len(lst) && lst[i].T != "f" && lst[i].K < s.local[c] {
				i++
			}
			if i < len(lst) && lst[i].T != "f" && lst[i].K == s.local[c] {
				next = lst[i].Next
				i++
			}
		}
		s.rpi[c] = i
		if next != c && (next < 0 || next >= s.n || s.done[next]) {
			next = c
		}
		if must && next == c {
			// (off the tape - a minimisation candidate: rotate through the others, so that a client parked inside a
			// critical section is reached and two blocked clients cannot pass the turn back and forth for ever)
			next = s.otherUnfinished(c, s.blockedRun)
		}
	} else if s.pct {
		clock := s.total
		if s.pctSync {
			clock = s.syncTotal
		}
		for len(s.pctChange) > 0 && clock >= s.pctChange[0] {
			s.pctChange = s.pctChange[1:]
			s.pctNextLow--
			s.pctPrio[c] = s.pctNextLow
		}
		if must {
			if kind == "b" {
				s.pctNextLow--
				s.pctPrio[c] = s.pctNextLow
			}
			next = s.pctBest(c)
		} else if b := s.pctBest(-1); b >= 0 {
			next = b
		}
	} else {
		sw := must
		if !sw && s.switches >= s.switchCap() {
			s.burstLeft = 0
		}
		if !sw && s.burstLeft > 0 {
			s.burstLeft--
			if s.burstLeft == 0 {
				sw = true
			}
		}
		if !sw && s.switches < s.switchCap() {
			den := s.pInDen
			if s.pSyncDen > 0 {
				den = 0
				if isSyncSite(site) {
					den = s.pSyncDen
				}
			}
			if boundary {
				den = s.pBoundDen
			}
			if den > 0 && s.rng.Intn(den) == 0 {
				sw = true
			}
		}
		if sw {
			next = s.otherUnfinished(c, s.rng.Intn(maxClients))
			if next < 0 {
				next = c
				if must {
					next = -1
				}
			} else if s.burstDen > 0 && s.rng.Intn(s.burstDen) == 0 {
				s.burstLeft = 1 + s.rng.Intn(24)
			}
		}
	}
	if must && next == c {
		next = -1
	}
	if next != c {
		s.tapeAdd(Switch{C: c, K: s.local[c], Next: next, T: kind, Site: site})
		s.switches++
		if s.inOp[c] >= 0 && kind != "f" {
			s.switchesInOp++
		}
		s.sig = fnvU64(s.sig, uint64(c)<<40|uint64(site)<<8|uint64(uint8(next)))
		s.sigK = fnvU64(s.sigK, uint64(c)<<56|s.local[c]<<8|uint64(uint8(next)))
	}
	return next
}

//go:norace
func (s *Sched) park(c int) {
	for loadTurn(&s.turn) != int64(c) {
		runtime.Gosched()
	}
}

//go:norace
func (s *Sched) handOff(c, next int) {
	if s.onSwitch != nil {
		s.quiet++
		s.onSwitch(c, next)
		s.quiet--
	}
	s.cur = next
	storeTurn(&s.turn, int64(next))
	s.park(c)
}

// Yield is the statement-level scheduling point (installed as tensor.VerifYieldHook).
//
//go:norace
func (s *Sched) Yield(site uint32) {
	if !s.active || s.quiet > 0 {
		if s.countOnly && s.quiet == 0 {
			// single-client runs (C19, solo oracles): no scheduling, but the step budget still holds
			s.opYields++
			s.soloYields++
			if s.opYields > opYieldBudget {
				s.budgetSite = site
				s.opYields = 0
				panic(budgetPanic{site})
			}
		}
		return
	}
	c := s.cur
	s.local[c]++
	s.total++
	if isSyncSite(site) {
		s.syncTotal++
	}
	s.progress()
	s.markCover(site)
	s.opYc[c]++
	if s.total > s.maxYields || s.opYc[c] > opYieldBudget {
		s.overBudget = true
		if s.budgetSite == 0 {
			s.budgetSite = site
			s.budgetClient = c
		}
		// abort the operation in flight; every later operation of every client aborts at its first
		// statement, so the run drains quickly (library calls the harness makes between operations -
		// the environment client - are short and are simply let through)
		if s.inOp[c] >= 0 {
			panic(budgetPanic{site})
		}
		return
	}
	if s.overBudget {
		return
	}
	if next := s.decide(c, "", site, false); next != c && next >= 0 {
		s.handOff(c, next)
	}
}

// Boundary is the scheduling point between two operations of a client.
//
//go:norace
func (s *Sched) Boundary() {
	if !s.active || s.quiet > 0 {
		return
	}
	c := s.cur
	s.local[c]++
	s.total++
	s.progress()
	if s.overBudget {
		return
	}
	if next := s.decide(c, "", 0, true); next != c && next >= 0 {
		s.handOff(c, next)
	}
}

// Blocked is called from the TryLock / non-blocking-send loops yieldgen substitutes for
// blocking statements.
//
//go:norace
func (s *Sched) Blocked(site uint32) {
	if !s.active || s.quiet > 0 {
		runtime.Gosched()
		return
	}
	c := s.cur
	s.local[c]++
	s.total++
	s.blockedRun++
	s.isBlocked[c] = true
	// a deadlock: every unfinished client has tried and failed to get past a blocking statement since the last
	// statement any of them completed (a client parked inside a critical section has not, and will be picked
	// sooner or later: waiting for it is not a deadlock, however often the blocked ones are picked first)
	allBlocked := true
	for i := 0; i < s.n; i++ {
		if !s.done[i] && !s.isBlocked[i] {
			allBlocked = false
		}
	}
	alive := 0
	for i := 0; i < s.n; i++ {
		if !s.done[i] {
			alive++
		}
	}
	if allBlocked || s.deadlock || s.blockedRun > 64*alive+64 {
		s.deadlock = true
		if s.deadlockSite == 0 {
			s.deadlockSite = site
		}
		panic(deadlockPanic{site})
	}
	next := s.decide(c, "b", site, false)
	if next < 0 {
		s.deadlock = true
		s.deadlockSite = site
		panic(deadlockPanic{site})
	}
	s.handOff(c, next)
}

//go:norace
func (s *Sched) finish(c int) {
	s.done[c] = true
	s.inOp[c] = -1
	next := s.decide(c, "f", 0, false)
	if next >= 0 && s.onSwitch != nil {
		s.quiet++
		s.onSwitch(c, next)
		s.quiet--
	}
	s.cur = next
	storeTurn(&s.turn, int64(next))
}

//go:norace
func (s *Sched) clientMain(c int, body func(c int)) {
	defer s.wg.Done()
	s.park(c)
	body(c)
	s.finish(c)
}

// Run executes body(c) for c in [0,n) as serialised client goroutines and returns when all finished.
//
//go:norace
func (s *Sched) Run(n int, body func(c int)) {
	s.n = n
	for i := range s.inOp {
		s.inOp[i] = -1
	}
	storeTurn(&s.turn, -1)
	s.wg.Add(n)
	for c := 0; c < n; c++ {
		go s.clientMain(c, body)
	}
	first := 0
	if s.replay {
		if s.rpStart >= 0 && s.rpStart < n {
			first = s.rpStart
		}
	} else if s.pct {
		first = s.pctBest(-1)
	} else {
		first = s.rng.Intn(n)
	}
	s.tapeAdd(Switch{C: -1, Next: first, T: "s"})
	s.cur = first
	s.active = true
	storeTurn(&s.turn, int64(first))
	s.wg.Wait()
	s.active = false
}

// SetupRandom configures the generation strategy from the run's seed (swarm style).
//
//go:norace
func (s *Sched) SetupRandom(r *RNG, n int, expectYields uint64, contention bool) string {
	s.rng = r.Fork(0x5c4ed)
	k := r.Intn(8)
	if k >= 6 && len(syncBits) > 0 {
		k = 8 + r.Intn(2)
	}
	if contention && len(syncBits) > 0 && r.Intn(8) > 0 {
		k = 8 + r.Intn(4)
		if k > 9 {
			k = 9
		}
	}
	switch k {
	case 9: // switches only at synchronisation statements (and operation boundaries)
		s.pSyncDen = []int{2, 3, 4, 8}[r.Intn(4)]
		s.pBoundDen = 2 + r.Intn(6)
		return "sync-random"
	case 8: // PCT over synchronisation statements: few change points, placed where atomicity can break
		s.pct, s.pctSync = true, true
		perm := make([]int, n)
		for i := range perm {
			perm[i] = i
		}
		for i := n - 1; i > 0; i-- {
			j := r.Intn(i + 1)
			perm[i], perm[j] = perm[j], perm[i]
		}
		for i, c := range perm {
			s.pctPrio[c] = 100 + i
		}
		d := 1 + r.Intn(5)
		expSync := 8 + expectYields/40
		if expSync > 400 {
			expSync = 400
		}
		for i := 0; i < d; i++ {
			s.pctChange = append(s.pctChange, 1+uint64(r.Intn(int(expSync))))
		}
		for i := 1; i < len(s.pctChange); i++ {
			for j := i; j > 0 && s.pctChange[j] < s.pctChange[j-1]; j-- {
				s.pctChange[j], s.pctChange[j-1] = s.pctChange[j-1], s.pctChange[j]
			}
		}
		return "pct-sync"
	case 0: // coarse: operation boundaries only
		s.pInDen, s.pBoundDen = 0, 2
		return "coarse"
	case 1, 2: // PCT-style priorities with d change points
		s.pct = true
		perm := make([]int, n)
		for i := range perm {
			perm[i] = i
		}
		for i := n - 1; i > 0; i-- {
			j := r.Intn(i + 1)
			perm[i], perm[j] = perm[j], perm[i]
		}
		for i, c := range perm {
			s.pctPrio[c] = 100 + i
		}
		d := 1 + r.Intn(4)
		if expectYields < 16 {
			expectYields = 16
		}
		for i := 0; i < d; i++ {
			s.pctChange = append(s.pctChange, 1+uint64(r.Intn(int(expectYields))))
		}
		for i := 1; i < len(s.pctChange); i++ {
			for j := i; j > 0 && s.pctChange[j] < s.pctChange[j-1]; j-- {
				s.pctChange[j], s.pctChange[j-1] = s.pctChange[j-1], s.pctChange[j]
			}
		}
		return "pct"
	default:
		dens := []int{4, 8, 16, 32, 64, 128, 256, 1024}
		s.pInDen = dens[r.Intn(len(dens))]
		s.pBoundDen = 1 + r.Intn(4)
		if r.Intn(2) == 0 {
			s.burstDen = 1 + r.Intn(4)
		}
		// (long runs - large tensors - get proportionally rarer switches: the tape holds 2^17 of them)
		limit := uint64(30000)
		if bigMode {
			limit = 3000 // every switch of such a run also pays for a look at large shared tensors
		}
		if expectYields/uint64(s.pInDen) > limit {
			s.pInDen = int(expectYields/limit) + 1
		}
		return "random"
	}
}

// syncBits marks the yield sites at (or right after) a synchronisation statement; filled from the site file.
var syncBits []uint64

//go:norace
func isSyncSite(site uint32) bool {
	w := int(site / 64)
	return w < len(syncBits) && syncBits[w]&(1<<(site%64)) != 0
}

// progress: a client completed a statement; whoever was blocked may find the world changed.
//
//go:norace
func (s *Sched) progress() {
	if s.blockedRun == 0 {
		return
	}
	s.blockedRun = 0
	for i := range s.isBlocked {
		s.isBlocked[i] = false
	}
}

// switchCap: voluntary switches stop after this many (the tape holds 2^17; runs over large tensors pay for a look at
// large shared tensors at every switch). Forced switches - a blocked or finished client - are not limited.
//
//go:norace
func (s *Sched) switchCap() uint64 {
	if bigMode {
		return 8000
	}
	return 60000
}
