package main

import (
	"fmt"
	"math"
	"reflect"
	"unsafe"

	"gorgonia.org/tensor"
)

var dtNames = []string{"bool", "int", "int8", "int16", "int32", "int64", "uint", "uint8", "uint16", "uint32", "uint64",
	"float32", "float64", "complex64", "complex128", "string"}

var numericDts = []string{"int", "int8", "int16", "int32", "int64", "uint", "uint8", "uint16", "uint32", "uint64",
	"float32", "float64", "complex64", "complex128"}
var floatDts = []string{"float32", "float64"}
var floatCplxDts = []string{"float32", "float64", "complex64", "complex128"}
var orderedDts = []string{"int", "int8", "int16", "int32", "int64", "uint", "uint8", "uint16", "uint32", "uint64",
	"float32", "float64", "string"}

func dtOf(name string) tensor.Dtype {
	switch name {
	case "bool":
		return tensor.Bool
	case "int":
		return tensor.Int
	case "int8":
		return tensor.Int8
	case "int16":
		return tensor.Int16
	case "int32":
		return tensor.Int32
	case "int64":
		return tensor.Int64
	case "uint":
		return tensor.Uint
	case "uint8":
		return tensor.Uint8
	case "uint16":
		return tensor.Uint16
	case "uint32":
		return tensor.Uint32
	case "uint64":
		return tensor.Uint64
	case "float32":
		return tensor.Float32
	case "float64":
		return tensor.Float64
	case "complex64":
		return tensor.Complex64
	case "complex128":
		return tensor.Complex128
	case "string":
		return tensor.String
	}
	panic("unknown dtype " + name)
}

// val is the i-th value of the deterministic value stream `seed`: small integers, so that integer
// valued float arithmetic is exact; seeds >= 1000 mix in extremes and non-finite values.
func val(seed, i int) float64 {
	x := uint64(seed)*0x9e3779b97f4a7c15 + uint64(i)*0xbf58476d1ce4e5b9
	x ^= x >> 29
	x *= 0x94d049bb133111eb
	x ^= x >> 32
	if seed >= 1000 {
		switch x % 29 {
		case 0:
			return math.Inf(1)
		case 1:
			return math.Inf(-1)
		case 2:
			return math.NaN()
		case 3:
			return math.Copysign(0, -1)
		case 4:
			return 1e300
		case 5:
			return -1e-300
		case 6:
			return 127
		case 7:
			return -128
		case 8:
			return 65535
		case 9:
			return 2147483647
		case 10:
			return 0.1
		case 11:
			return 1.0 / 3
		case 12:
			return 123456.789
		case 13:
			return 9007199254740993 // 2^53+1: not representable, rounds
		case 14:
			return -2147483648
		case 15:
			return 16777217 // 2^24+1: rounds in float32
		case 16:
			return 1e-7
		case 17:
			// the one float32 (up to sign) whose shortest decimal text lies so close to the midpoint of two float32s
			// that parsing it as a float64 first and narrowing afterwards gives the other neighbour (double rounding)
			return float64(math.Float32frombits(0x15ae43fd))
		case 18:
			return -float64(math.Float32frombits(0x15ae43fd))
		case 19:
			return float64(math.SmallestNonzeroFloat32)
		case 20:
			return math.SmallestNonzeroFloat64
		case 21:
			return -9223372036854775808
		}
	}
	return float64(int(x%13)) - 3
}

var strTable = []string{"", "a", "b", "ab", "x,y", "q\"uote", "new\nline", " sp ", "üñí", "0", "-1", "NaN", "zz", "A",
	"#c", "#", "a\tb", "x;y", "'s'", "1e5", "\\n", "é\u0301", "long-" + "0123456789012345678901234567890123456789", "cr\r\nlf", "cr\rx"}

func strVal(seed, i int) string {
	x := uint64(seed)*0x9e3779b97f4a7c15 + uint64(i)*0xd6e8feb86659fd93
	x ^= x >> 31
	if seed < 1000 {
		return strTable[1+x%3]
	}
	return strTable[x%uint64(len(strTable))]
}

func f2i(v float64) int64 {
	if math.IsNaN(v) {
		return 0
	}
	if v > 9e18 {
		return math.MaxInt64
	}
	if v < -9e18 {
		return math.MinInt64
	}
	return int64(v)
}

func f2u(v float64) uint64 {
	if math.IsNaN(v) {
		return 0
	}
	if v < 0 {
		return uint64(f2i(v))
	}
	if v > 1.8e19 {
		return math.MaxUint64
	}
	return uint64(v)
}

// mkScalar builds a Go scalar of element type dt from v.
func mkScalar(dt string, v float64) interface{} {
	switch dt {
	case "bool":
		return v != 0 && !math.IsNaN(v)
	case "int":
		return int(f2i(v))
	case "int8":
		return int8(f2i(v))
	case "int16":
		return int16(f2i(v))
	case "int32":
		return int32(f2i(v))
	case "int64":
		return f2i(v)
	case "uint":
		return uint(f2u(v))
	case "uint8":
		return uint8(f2u(v))
	case "uint16":
		return uint16(f2u(v))
	case "uint32":
		return uint32(f2u(v))
	case "uint64":
		return f2u(v)
	case "float32":
		return float32(v)
	case "float64":
		return v
	case "complex64":
		return complex(float32(v), float32(-v/2))
	case "complex128":
		return complex(v, -v/2)
	case "string":
		return fmt.Sprintf("s%v", v)
	}
	panic("unknown dtype " + dt)
}

// mkBacking builds a []T of n elements of type dt from value stream seed.
func mkBacking(dt string, n, seed int) interface{} {
	rt := reflect.SliceOf(dtOf(dt).Type)
	s := reflect.MakeSlice(rt, n, n)
	for i := 0; i < n; i++ {
		if dt == "string" {
			s.Index(i).SetString(strVal(seed, i))
			continue
		}
		s.Index(i).Set(reflect.ValueOf(mkScalar(dt, val(seed, i))))
	}
	return s.Interface()
}

func mkMask(n, seed int) []bool {
	m := make([]bool, n)
	for i := range m {
		m[i] = val(seed+7, i) > 4
	}
	return m
}

func prod(s []int) int {
	p := 1
	for _, d := range s {
		p *= d
	}
	return p
}

func cloneInts(s []int) []int {
	if s == nil {
		return nil
	}
	return append([]int{}, s...)
}

func isPointerDt(dt tensor.Dtype) bool {
	switch dt.Kind() {
	case reflect.String, reflect.UnsafePointer, reflect.Ptr, reflect.Interface, reflect.Slice, reflect.Map, reflect.Chan, reflect.Func:
		return true
	}
	return false
}

// hashValue hashes a non-tensor result (scalars, []int, []Slice, nested native slices ...) structurally.
func hashValue(h uint64, v interface{}) uint64 {
	switch x := v.(type) {
	case nil:
		return fnvAdd(h, 0)
	case *tensor.Dense:
		if x == nil {
			return fnvAdd(h, 0)
		}
		return fnvU64(h, snapOf(x).All())
	case tensor.Tensor:
		if d, ok := x.(*tensor.Dense); ok {
			return fnvU64(h, snapOf(d).All())
		}
		return fnvStr(h, fmt.Sprintf("%T", v))
	case []tensor.Slice:
		for _, s := range x {
			if s == nil {
				h = fnvAdd(h, 1)
				continue
			}
			h = fnvU64(h, uint64(s.Start()))
			h = fnvU64(h, uint64(s.End()))
			h = fnvU64(h, uint64(s.Step()))
		}
		return fnvAdd(h, 2)
	case error:
		return fnvAdd(h, 3)
	}
	rv := reflect.ValueOf(v)
	switch rv.Kind() {
	case reflect.Ptr, reflect.UnsafePointer, reflect.Chan, reflect.Func, reflect.Map:
		return fnvStr(h, rv.Type().String())
	}
	return fnvStr(h, fmt.Sprintf("%T:%v", v, v))
}

func rawOf(t *tensor.Dense) (ptr uintptr, n int) {
	r := tensor.VerifRaw(t)
	if len(r) == 0 {
		return 0, 0
	}
	return uintptr(unsafe.Pointer(&r[0])), len(r)
}
